(* C10 — map: one result per input combination, in input order, equal to a single run. *)
From HG Require Import Base Rename Engine Exec Nested MapProofs.
From stdpp Require Import gmap.
From HG Require PoolProofs.

(* zip: one combination per position (entry i pairs the i-th elements), nothing else *)
Theorem C10_zip : forall values over cols c0 rest items i,
  over <> [] -> columns values over = Some cols -> cols = c0 :: rest ->
  generate_map_inputs values over MZip = inr items ->
  length items = length c0 /\
  (i < length c0 -> nth_error items i =
     Some (broadcast_of values over ++ combine over (map (fun c => nth i c VNone) cols))).
Proof. exact zip_positionwise. Qed.
Print Assumptions C10_zip.

Theorem C10_zip_unequal : forall values over cols c0 rest,
  over <> [] -> columns values over = Some cols -> cols = c0 :: rest ->
  forallb (fun c => Nat.eqb (length c) (length c0)) cols = false ->
  generate_map_inputs values over MZip = inl EValueError.
Proof. exact zip_unequal_rejected. Qed.
Print Assumptions C10_zip_unequal.

(* product: the cartesian product in row-major order of the parameters AS LISTED in map_over *)
Theorem C10_product_row_major : forall c rest i j x row,
  nth_error c i = Some x -> nth_error (cartesian rest) j = Some row ->
  nth_error (cartesian (c :: rest)) (i * prod_len rest + j) = Some (x :: row).
Proof. exact cartesian_row. Qed.
Print Assumptions C10_product_row_major.

Theorem C10_product_count : forall values over cols items,
  over <> [] -> columns values over = Some cols ->
  generate_map_inputs values over MProduct = inr items -> length items = prod_len cols.
Proof. exact product_count. Qed.
Print Assumptions C10_product_count.

Theorem C10_product_empty : forall values over cols,
  over <> [] -> columns values over = Some cols -> In [] cols ->
  generate_map_inputs values over MProduct = inr [].
Proof. exact product_empty. Qed.
Print Assumptions C10_product_empty.

(* each result equals the single run on that combination *)
Theorem C10_each : forall d r ng pv over mode items i it,
  generate_map_inputs pv over mode = inr items -> nth_error items i = Some it ->
  exists rs, map_top d r ng pv over mode = inr rs /\ length rs = length items /\
             nth_error rs i = Some (run_ng d r default_max_iterations ng it None).
Proof. exact map_each. Qed.
Print Assumptions C10_each.

(* a mapping node: every output is a list with exactly one entry per combination; None where the
   item failed or did not produce the output (continue mode); the first failing item's error
   propagates (raise mode) *)
Theorem C10_collect : forall hout cur_out rs,
  exists outs, collect_as_lists hout cur_out true rs = inr outs /\
    map fst outs = cur_out /\
    forall o l, In (o, l) outs -> exists vs, l = VList vs /\ length vs = length rs /\
      forall i r, nth_error rs i = Some r ->
        nth_error vs i = Some (match r with
                               | IOk values => match dget (gn_map_outputs hout cur_out values) o with
                                               | Some v => v | None => VNone end
                               | _ => VNone end).
Proof. exact collect_continue. Qed.
Print Assumptions C10_collect.

Theorem C10_collect_raise : forall hout cur_out rs e,
  first_item_error rs = Some e -> collect_as_lists hout cur_out false rs = inl e.
Proof. exact collect_raise_first. Qed.
Print Assumptions C10_collect_raise.

(* bounded concurrency: whatever order the workers complete the items in, the results come back in
   input order; in raise mode the surfaced failure is the failing item of smallest index *)
Theorem C10_pool : forall (R : Type) (f : nat -> R) (order : list nat) n,
  PoolProofs.is_completion_order order n ->
  PoolProofs.pool_results f order = List.map f (List.seq 0 n).
Proof. exact PoolProofs.pool_in_input_order'. Qed.
Print Assumptions C10_pool.

Example C10_nonvacuous :
  generate_map_inputs [(1%positive, VList [VInt 1; VInt 2]); (2%positive, VList [VInt 7; VInt 8; VInt 9]); (3%positive, VInt 0)]
                      [2; 1]%positive MProduct
  = inr (map (fun ab => [(3%positive, VInt 0); (2%positive, VInt (fst ab)); (1%positive, VInt (snd ab))])
             [(7, 1); (7, 2); (8, 1); (8, 2); (9, 1); (9, 2)]%Z).
Proof. vm_compute. reflexivity. Qed.

(* ---- items whose node mutates a signature default (fix e86f9d3: every item resolves and copies its own defaults) ---- *)
From HG Require Import Isolation IsolationProofs MapIsolation.

(* any interleaving of the items: no pre-existing object (the defaults among them) changes, every body sees pristine contents *)
Theorem C10_items_isolated : forall sched h0 rs h' rs' tr,
  (forall r, In r rs -> is_item r) ->
  own_defaults_only sched rs ->
  (forall i n p l, In (i, n) sched -> dget (m_defaults n) p = Some (MRef l) -> l < length h0) ->
  exec_sched h0 rs sched = (h', rs', tr) ->
  (forall l, l < length h0 -> cell_of h' l = cell_of h0 l) /\
  (forall st, In st tr ->
     c_before (s_call st) = map (fun p => deref h0 (snd (source (s_node st) (s_before st) p))) (m_inputs (s_node st))).
Proof. exact map_items_isolated. Qed.
Print Assumptions C10_items_isolated.

(* the hypotheses are met by three items over body(x, acc=[]) ... *)
Theorem C10_items_example :
  (forall r, In r [item 1; item 2; item 3] -> is_item r) /\
  own_defaults_only [(0, body); (1, body); (2, body)]%nat [item 1; item 2; item 3].
Proof. exact items_example_meets_hypotheses. Qed.
Print Assumptions C10_items_example.

(* ... and one copy of the default handed to every item (the behaviour before the fix) is refuted: item k sees k-1 appends *)
Theorem C10_shared_default_refuted :
  let '(h', rs', tr) := exec_sched [[]; []] [legacy_item 1; legacy_item 2; legacy_item 3] [(0, body); (1, body); (2, body)]%nat in
  map (fun st => c_after (s_call st)) tr = [[[1]; [7]]; [[2]; [7; 7]]; [[3]; [7; 7; 7]]]%Z.
Proof. exact legacy_items_share_one_copy_refuted. Qed.
Print Assumptions C10_shared_default_refuted.
