(* C14 — interrupts pause before dependants run and resume to the same result. *)
From HG Require Import Base Rename Engine Exec Nested NestedProofs EngineProofs InterruptProofs Samples.
From stdpp Require Import gmap.

Theorem C14_pause : forall ft n st ins f o outs',
  vals st !! o = None -> firstn (n_ndata n) (n_outputs n) = o :: outs' ->
  dget ft (n_fn n) = Some f -> eval_fexp f 1 ins = FVal VNone ->
  exec_interrupt ft n st ins =
    OPause (mk_pause [n_name n] o (match ins with (_, v) :: _ => v | [] => VNone end)).
Proof. exact interrupt_pause. Qed.
Print Assumptions C14_pause.

Theorem C14_resume_passes : forall ft n st ins,
  forallb (fun o => match vals st !! o with Some _ => true | None => false end) (firstn (n_ndata n) (n_outputs n)) = true ->
  execs st !! n_name n = None ->
  exec_interrupt ft n st ins =
    OOk (flat_map (fun o => match vals st !! o with Some v => [(o, v)] | None => [] end)
                  (firstn (n_ndata n) (n_outputs n)) ++ emit_outs n) None.
Proof. exact interrupt_resume. Qed.
Print Assumptions C14_resume_passes.

(* the resumed interrupt yields what a handler returning that response would yield *)
Theorem C14_resume_as_handler : forall ft n st ins f o v,
  firstn (n_ndata n) (n_outputs n) = [o] ->
  vals st !! o = Some v -> execs st !! n_name n = None -> v <> VNone ->
  dget ft (n_fn n) = Some f -> eval_fexp f 1 ins = FVal v ->
  forall st0, vals st0 !! o = None ->
  exec_interrupt ft n st ins = exec_interrupt ft n st0 ins.
Proof.
  intros ft n st ins f o v Hd Hv He Hn Hf Hev st0 Hv0.
  rewrite (interrupt_resume ft n st ins); [|rewrite Hd; simpl; rewrite Hv; reflexivity | exact He].
  rewrite (interrupt_auto ft n st0 ins f o [] v Hv0 Hd Hf Hev Hn).
  rewrite Hd. simpl. rewrite Hv. reflexivity.
Qed.
Print Assumptions C14_resume_as_handler.

(* several interrupts pause one at a time: the asynchronous step runs the first ready interrupt alone *)
Theorem C14_one_at_a_time : forall exec g snap pv rd pi i rest,
  List.filter is_interrupt rd = i :: rest ->
  snd (superstep_async exec g snap pv rd pi) =
    match fst (run_one exec g snap pv i) with Some ins => [(n_name i, ins)] | None => [] end.
Proof. exact interrupt_runs_alone. Qed.
Print Assumptions C14_one_at_a_time.

(* path-qualified identity through nesting *)
Theorem C14_path : forall d r ft gt subs n st ins ig isel ieps ift igt isubs hin hout cur_out p s,
  n_kind n = KGraph ->
  dget subs (n_name n) = Some (NSub (NG ig isel ieps ift igt isubs) hin hout cur_out None) ->
  fst (execute (exec_ng d r ift igt isubs) r default_max_iterations ig (map_inputs_to_params hin ins)) = RPaused p s ->
  exec_ng (S d) r ft gt subs n st ins = OPause (mk_pause (n_name n :: p_node p) (p_out p) (p_value p)).
Proof.
  intros d r ft gt subs n st ins ig isel ieps ift igt isubs hin hout cur_out p s Hk Hs Hp.
  rewrite (exec_ng_graph d r ft gt subs n st ins ig isel ieps ift igt isubs hin hout cur_out Hk Hs), Hp. reflexivity.
Qed.
Print Assumptions C14_path.

(* values returned with a pause are those of the state before the interrupt's step *)
Theorem C14_paused_values : forall exec r fuel g pv st log pz s,
  fst (run_loop exec r fuel g pv st log) = RPaused pz s ->
  exists k sk s2 calls, k < fuel /\ steps exec r g pv k st sk /\
    superstep exec r g (ready_state g sk) pv (ready_list g sk) = (SPause pz s2, calls) /\ s = ready_state g sk.
Proof. exact paused_state. Qed.
Print Assumptions C14_paused_values.

(* Non-vacuity: A(x)->a ; interrupt I(a)->d (handler returns None) ; B(d)->b *)
Definition int_nodes : list node :=
  [fnode 10 [1] [31] 1; mk_node 11 [31] [32] 1%nat [] [] [] KInterrupt 2; fnode 12 [32] [33] 3]%positive.
Definition int_ng : ngraph :=
  mk_ng int_nodes [] None None [(1, FSym 10); (2, FConst VNone); (3, FSym 12)]%positive [] [].
Example C14_nonvacuous :
  run_pause 2 Async 20 int_ng [(1%positive, VInt 5)]
    = Some (mk_pause [11%positive] 32%positive (VTup [VStr 10; VInt 5])) /\
  res_status (run_ng 2 Async 20 int_ng [(1%positive, VInt 5); (32%positive, VInt 9)] None) = 0 /\
  dget (res_values (run_ng 2 Async 20 int_ng [(1%positive, VInt 5); (32%positive, VInt 9)] None)) 33
    = Some (VTup [VStr 12; VInt 9]).
Proof. vm_compute. repeat split; reflexivity. Qed.
