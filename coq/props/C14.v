(* C14 — interrupts pause before dependants run and resume to the same result. *)
From HG Require Import Base Rename Engine Exec Nested NestedProofs EngineProofs InterruptProofs Samples InterruptRun InterruptRunModel.
From stdpp Require Import gmap.

Theorem C14_pause : forall ft n st ins f o outs',
  vals st !! o = None -> firstn (n_ndata n) (n_outputs n) = o :: outs' ->
  dget ft (n_fn n) = Some f -> eval_fexp f 1 ins = FVal VNone ->
  exec_interrupt ft n st ins =
    OPause (mk_pause [n_name n] o (match ins with (_, v) :: _ => v | [] => VNone end)).
Proof. exact interrupt_pause. Qed.
Print Assumptions C14_pause.

Theorem C14_resume_passes : forall ft n st ins,
  forallb (fun o => match vals st !! o with Some _ => true | None => false end) (firstn (n_ndata n) (n_outputs n)) = true ->
  execs st !! n_name n = None ->
  exec_interrupt ft n st ins =
    OOk (flat_map (fun o => match vals st !! o with Some v => [(o, v)] | None => [] end)
                  (firstn (n_ndata n) (n_outputs n)) ++ emit_outs n) None.
Proof. exact interrupt_resume. Qed.
Print Assumptions C14_resume_passes.

(* the resumed interrupt yields what a handler returning that response would yield *)
Theorem C14_resume_as_handler : forall ft n st ins f o v,
  firstn (n_ndata n) (n_outputs n) = [o] ->
  vals st !! o = Some v -> execs st !! n_name n = None -> v <> VNone ->
  dget ft (n_fn n) = Some f -> eval_fexp f 1 ins = FVal v ->
  forall st0, vals st0 !! o = None ->
  exec_interrupt ft n st ins = exec_interrupt ft n st0 ins.
Proof.
  intros ft n st ins f o v Hd Hv He Hn Hf Hev st0 Hv0.
  rewrite (interrupt_resume ft n st ins); [|rewrite Hd; simpl; rewrite Hv; reflexivity | exact He].
  rewrite (interrupt_auto ft n st0 ins f o [] v Hv0 Hd Hf Hev Hn).
  rewrite Hd. simpl. rewrite Hv. reflexivity.
Qed.
Print Assumptions C14_resume_as_handler.

(* several interrupts pause one at a time: the asynchronous step runs the first ready interrupt alone *)
Theorem C14_one_at_a_time : forall exec g snap pv rd pi i rest,
  List.filter is_interrupt rd = i :: rest ->
  snd (superstep_async exec g snap pv rd pi) =
    match fst (run_one exec g snap pv i) with Some ins => [(n_name i, ins)] | None => [] end.
Proof. exact interrupt_runs_alone. Qed.
Print Assumptions C14_one_at_a_time.

(* path-qualified identity through nesting *)
Theorem C14_path : forall d r ft gt subs n st ins ig isel ieps ift igt isubs hin hout cur_out p s,
  n_kind n = KGraph ->
  dget subs (n_name n) = Some (NSub (NG ig isel ieps ift igt isubs) hin hout cur_out None) ->
  fst (execute (exec_ng d r ift igt isubs) r default_max_iterations ig (map_inputs_to_params hin ins)) = RPaused p s ->
  exec_ng (S d) r ft gt subs n st ins = OPause (mk_pause (n_name n :: p_node p) (p_out p) (p_value p)).
Proof.
  intros d r ft gt subs n st ins ig isel ieps ift igt isubs hin hout cur_out p s Hk Hs Hp.
  rewrite (exec_ng_graph d r ft gt subs n st ins ig isel ieps ift igt isubs hin hout cur_out Hk Hs), Hp. reflexivity.
Qed.
Print Assumptions C14_path.

(* values returned with a pause are those of the state before the interrupt's step *)
Theorem C14_paused_values : forall exec r fuel g pv st log pz s,
  fst (run_loop exec r fuel g pv st log) = RPaused pz s ->
  exists k sk s2 calls, k < fuel /\ steps exec r g pv k st sk /\
    superstep exec r g (ready_state g sk) pv (ready_list g sk) = (SPause pz s2, calls) /\ s = ready_state g sk.
Proof. exact paused_state. Qed.
Print Assumptions C14_paused_values.

(* WHOLE RUNS.  The chain  A(x) -> a ; I(a) -> d [interrupt] ; B(a, d) -> b  (InterruptRun.chain) with ARBITRARY node functions
   fa, fb, under the asynchronous runner, any budget of at least 2 (pause) / 3 supersteps.  The interrupt's executor is any
   function with the behaviours of C14_pause / C14_resume_passes / interrupt_auto.
   (1) A handler that does not answer pauses the run at I: after A, before B; the pause names I, its output and its input's
       value; the returned state holds a and neither d nor b; the call log holds A and I only. *)
Theorem C14_run_pauses : forall (fa : Z -> val) (exec : node -> state -> dict val -> outcome),
  (forall st x, exec nodeA st [(1%positive, VInt x)] = OOk [(31%positive, fa x)] None) ->
  forall x fuel,
  (forall st a, vals st !! 32%positive = None -> exec nodeI st [(31%positive, a)] = OPause (mk_pause [15%positive] 32%positive a)) ->
  exists s,
    execute exec Async (S (S fuel)) chain [(1%positive, VInt x)] =
      (RPaused (mk_pause [15%positive] 32%positive (fa x)) s,
       [[(10%positive, [(1%positive, VInt x)])]; [(15%positive, [(31%positive, fa x)])]]) /\
    vals s !! 31%positive = Some (fa x) /\ vals s !! 32%positive = None /\ vals s !! 33%positive = None.
Proof. exact chain_pauses. Qed.
Print Assumptions C14_run_pauses.

(* (2) The same call with the response supplied under d resumes: I passes it on without consulting the handler, B runs once
       with it, the run completes. *)
Theorem C14_run_resumes : forall (fa : Z -> val) (fb : val -> val -> val) (exec : node -> state -> dict val -> outcome),
  (forall st x, exec nodeA st [(1%positive, VInt x)] = OOk [(31%positive, fa x)] None) ->
  (forall st a d, exec nodeB st [(31%positive, a); (32%positive, d)] = OOk [(33%positive, fb a d)] None) ->
  forall x d fuel,
  (forall st a v, vals st !! 32%positive = Some v -> execs st !! 15%positive = None ->
     exec nodeI st [(31%positive, a)] = OOk [(32%positive, v)] None) ->
  exists s,
    execute exec Async (S (S (S fuel))) chain [(1%positive, VInt x); (32%positive, d)] =
      (RDone s, [[(10%positive, [(1%positive, VInt x)])]; [(15%positive, [(31%positive, fa x)])];
                 [(11%positive, [(31%positive, fa x); (32%positive, d)])]]) /\
    vals s !! 31%positive = Some (fa x) /\ vals s !! 32%positive = Some d /\ vals s !! 33%positive = Some (fb (fa x) d).
Proof. exact chain_resumes. Qed.
Print Assumptions C14_run_resumes.

(* (3) ... which is the result (values and call log) of the run whose handler answers by itself with that response. *)
Theorem C14_run_answered : forall (fa : Z -> val) (fb : val -> val -> val) (exec : node -> state -> dict val -> outcome),
  (forall st x, exec nodeA st [(1%positive, VInt x)] = OOk [(31%positive, fa x)] None) ->
  (forall st a d, exec nodeB st [(31%positive, a); (32%positive, d)] = OOk [(33%positive, fb a d)] None) ->
  forall x d fuel,
  (forall st a, vals st !! 32%positive = None -> exec nodeI st [(31%positive, a)] = OOk [(32%positive, d)] None) ->
  exists s,
    execute exec Async (S (S (S fuel))) chain [(1%positive, VInt x)] =
      (RDone s, [[(10%positive, [(1%positive, VInt x)])]; [(15%positive, [(31%positive, fa x)])];
                 [(11%positive, [(31%positive, fa x); (32%positive, d)])]]) /\
    vals s !! 31%positive = Some (fa x) /\ vals s !! 32%positive = Some d /\ vals s !! 33%positive = Some (fb (fa x) d).
Proof. exact chain_answered. Qed.
Print Assumptions C14_run_answered.

(* The executors of the engine model (exec_basic for A and B, Nested.exec_interrupt for I, handler FConst) satisfy those
   hypotheses: pause, resume and "same result as the answering handler" hold of the model program itself, for every x and
   every response d other than None. *)
Theorem C14_model_run : forall x d fuel, d <> VNone ->
  (exists s, execute (chain_exec (FConst VNone)) Async (S (S fuel)) chain [(1%positive, VInt x)] =
             (RPaused (mk_pause [15%positive] 32%positive (sym_a x)) s,
              [[(10%positive, [(1%positive, VInt x)])]; [(15%positive, [(31%positive, sym_a x)])]]) /\
             vals s !! 31%positive = Some (sym_a x) /\ vals s !! 32%positive = None /\ vals s !! 33%positive = None) /\
  (exists s s', execute (chain_exec (FConst VNone)) Async (S (S (S fuel))) chain [(1%positive, VInt x); (32%positive, d)] =
                  (RDone s, [[(10%positive, [(1%positive, VInt x)])]; [(15%positive, [(31%positive, sym_a x)])];
                             [(11%positive, [(31%positive, sym_a x); (32%positive, d)])]]) /\
                execute (chain_exec (FConst d)) Async (S (S (S fuel))) chain [(1%positive, VInt x)] =
                  (RDone s', [[(10%positive, [(1%positive, VInt x)])]; [(15%positive, [(31%positive, sym_a x)])];
                              [(11%positive, [(31%positive, sym_a x); (32%positive, d)])]]) /\
                (forall o, In o [31%positive; 32%positive; 33%positive] -> vals s !! o = vals s' !! o) /\
                vals s !! 33%positive = Some (sym_b (sym_a x) d)).
Proof. exact chain_model. Qed.
Print Assumptions C14_model_run.

(* Non-vacuity: A(x)->a ; interrupt I(a)->d (handler returns None) ; B(d)->b *)
Definition int_nodes : list node :=
  [fnode 10 [1] [31] 1; mk_node 11 [31] [32] 1%nat [] [] [] KInterrupt 2; fnode 12 [32] [33] 3]%positive.
Definition int_ng : ngraph :=
  mk_ng int_nodes [] None None [(1, FSym 10); (2, FConst VNone); (3, FSym 12)]%positive [] [].
Example C14_nonvacuous :
  run_pause 2 Async 20 int_ng [(1%positive, VInt 5)]
    = Some (mk_pause [11%positive] 32%positive (VTup [VStr 10; VInt 5])) /\
  res_status (run_ng 2 Async 20 int_ng [(1%positive, VInt 5); (32%positive, VInt 9)] None) = 0 /\
  dget (res_values (run_ng 2 Async 20 int_ng [(1%positive, VInt 5); (32%positive, VInt 9)] None)) 33
    = Some (VTup [VStr 12; VInt 9]).
Proof. vm_compute. repeat split; reflexivity. Qed.

(* ---- a cacheable interrupt: the response the caller supplied is neither replaced by a cached one nor stored ---- *)
From HG Require Import Cache CacheProofs CacheInterrupt.
Theorem C14_supplied_response_bypasses_cache : forall (ckeyT : Type) ckeqb exec (ckey : node -> dict val -> option ckeyT) c n st ins,
  resuming n st = true -> exec_cached_b ckeyT ckeqb exec ckey c n st ins = (exec n st ins, c).
Proof. intros. apply resuming_leaves_cache. assumption. Qed.
Print Assumptions C14_supplied_response_bypasses_cache.

Theorem C14_cached_interrupt_example :
  let exec := exec_interrupt ft0 in
  let c1 := snd (exec_cached_b positive Pos.eqb exec key1 [] ask (st_with (VStr 1)) ins0) in
  c1 = [] /\
  fst (exec_cached_b positive Pos.eqb exec key1 c1 ask (st_with (VStr 2)) ins0) = OOk [(32%positive, VStr 2)] None /\
  (exists p, fst (exec_cached_b positive Pos.eqb exec key1 c1 ask st_none ins0) = OPause p).
Proof. exact repaired_cached_interrupt. Qed.
Print Assumptions C14_cached_interrupt_example.

(* ---- nothing computed is lost by a pause: every node that may pause runs alone (nested graphs holding an interrupt included) ---- *)
Theorem C14_pausing_step_calls_only_the_pausing_node : forall exec g snap pv rd pi p acc calls,
  (forall n q, In n rd -> snd (run_one exec g snap pv n) = OPause q -> is_interrupt n = true) ->
  superstep_async exec g snap pv rd pi = (SPause p acc, calls) ->
  exists i, isolate rd = [i] /\ is_interrupt i = true /\ snd (run_one exec g snap pv i) = OPause p /\
            calls = match fst (run_one exec g snap pv i) with Some ins => [(n_name i, ins)] | None => [] end.
Proof. exact pausing_step_calls_only_the_pausing_node. Qed.
Print Assumptions C14_pausing_step_calls_only_the_pausing_node.

Theorem C14_nested_holder_flag : forall nm inner hin hout,
  is_interrupt (graphnode_of nm inner hin hout) = existsb is_interrupt (g_nodes (ng_graph inner)).
Proof. exact graphnode_of_flag. Qed.
Print Assumptions C14_nested_holder_flag.

Theorem C14_nested_holder_example :
  is_interrupt (graphnode_of 20%positive hold_inner [] []) = true /\
  (let r := run_ng 3 Async 20 hold_outer [(1%positive, VInt 5)] None in
   (res_status r, res_values r, res_log r) = (2%nat, [], [[(20%positive, [(1%positive, VInt 5)])]])) /\
  (let r := run_ng 3 Async 20 hold_flat [(1%positive, VInt 5)] None in
   (res_status r, res_values r, res_log r) = (2%nat, [], [[(11%positive, [(1%positive, VInt 5)])]])).
Proof. exact nested_holder_runs_alone. Qed.
Print Assumptions C14_nested_holder_example.

(* ---- ... and in the model's own executor only the isolated nodes pause, at every nesting depth: no hypothesis left ---- *)
From HG Require Import NestedPause.
Theorem C14_only_isolated_nodes_pause : forall d g sel eps ft gt subs,
  wf_flags d (NG g sel eps ft gt subs) ->
  forall n st ins p, In n (g_nodes g) -> exec_ng d Async ft gt subs n st ins = OPause p -> is_interrupt n = true.
Proof. exact only_flagged_nodes_pause. Qed.
Print Assumptions C14_only_isolated_nodes_pause.

Theorem C14_model_pausing_step_calls_only_the_pausing_node : forall d g sel eps ft gt subs snap pv rd pi p acc calls,
  wf_flags d (NG g sel eps ft gt subs) -> (forall n, In n rd -> In n (g_nodes g)) ->
  superstep_async (exec_ng d Async ft gt subs) g snap pv rd pi = (SPause p acc, calls) ->
  exists i, isolate rd = [i] /\ is_interrupt i = true /\
            calls = match fst (run_one (exec_ng d Async ft gt subs) g snap pv i) with Some ins => [(n_name i, ins)] | None => [] end.
Proof. exact model_pausing_step_calls_only_the_pausing_node. Qed.
Print Assumptions C14_model_pausing_step_calls_only_the_pausing_node.

Theorem C14_flags_example : wf_flags 3 hold_outer.
Proof. exact hold_outer_wf. Qed.
Print Assumptions C14_flags_example.
