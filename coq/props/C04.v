(* C04 — loops: at most max_iterations supersteps; InfiniteLoopError carries the state so far. *)
From HG Require Import Base Engine Exec EngineProofs LoopProofs LoopCount LoopCount1 Samples.
From stdpp Require Import gmap.

(* A run never executes more than max_iterations supersteps (every graph, runner, executor). *)
Theorem C04_fuel : forall exec r fuel g pv st log,
  length (snd (run_loop exec r fuel g pv st log)) <= length log + fuel.
Proof. exact run_loop_log_length. Qed.
Print Assumptions C04_fuel.

(* What each outcome of the loop means: COMPLETED = quiescence reached within the budget;
   FAILED = a superstep failed, or exactly `fuel` supersteps ran, work remains, and the
   error is InfiniteLoopError carrying the state reached; PAUSED = a superstep paused. *)
Theorem C04_outcomes : forall exec r fuel g pv st log,
  match fst (run_loop exec r fuel g pv st log) with
  | RDone st' => exists k sk, k <= fuel /\ steps exec r g pv k st sk /\ ready_list g sk = [] /\ st' = ready_state g sk
  | RFailed e p =>
      (exists k sk calls, k < fuel /\ steps exec r g pv k st sk /\ ready_list g sk <> [] /\
         superstep exec r g (ready_state g sk) pv (ready_list g sk) = (SErr e p, calls)) \/
      (e = EInfiniteLoop /\ exists sk, steps exec r g pv fuel st sk /\ ready_list g sk <> [] /\ p = ready_state g sk)
  | RPaused pz s =>
      exists k sk s2 calls, k < fuel /\ steps exec r g pv k st sk /\ ready_list g sk <> [] /\
         superstep exec r g (ready_state g sk) pv (ready_list g sk) = (SPause pz s2, calls) /\ s = ready_state g sk
  end.
Proof. exact run_loop_spec. Qed.
Print Assumptions C04_outcomes.

(* Non-vacuity and the iteration count of a concrete signal-synchronised loop (family L2):
   x := 0; while x < 3: x := x + 1  — three body executions, three gate executions (the first body run passes the default-open gate), x = 3;
   with a budget one superstep short the run fails with InfiniteLoopError. *)
(* NO REPEATED OR EXTRA ITERATION.  In every state a run reaches (any graph, either runner): when a node controlled by one gate
   has run before and is scheduled again, the gate's standing decision was computed AFTER that previous run - some input of the
   node had an older version when the node last ran than when the gate decided - provided the node's inputs are inputs of the
   gate too (the loop variable feeds both, as in `while P(x): x = body(x)`).  Each pass of the loop body therefore needs a
   fresh decision of the gate: no second pass on one decision, no pass on an invalidated one. *)
Theorem C04_fresh_decision_per_pass : forall exec g pv r k st t G gn rt,
  steps exec r g pv k (init_state pv) st ->
  In t (ready_list g st) ->
  controlled_by g (n_name t) = [G] ->
  In gn (g_nodes g) -> is_gate gn = true -> n_name gn = G ->
  (forall p, In p (n_inputs t) -> In p (n_inputs gn) /\ ~ In p (n_outputs gn)) ->
  execs (ready_state g st) !! n_name t = Some rt ->
  execs (ready_state g st) !! G <> None ->
  exists rG p, execs (ready_state g st) !! G = Some rG /\ In p (n_inputs t) /\
    default 0 (dget (r_in rt) p) < default 0 (dget (r_in rG) p).
Proof. exact rerun_needs_new_decision. Qed.
Print Assumptions C04_fresh_decision_per_pass.

(* execution records are snapshots of the past: recorded versions never exceed the current ones, along every run *)
Theorem C04_records_from_the_past : forall exec g pv r k st,
  steps exec r g pv k (init_state pv) st -> RecLe st.
Proof. intros exec g pv r k st H. apply (RecLe_steps exec g pv r k _ _ H). apply RecLe_init. Qed.
Print Assumptions C04_records_from_the_past.

(* EXACT ITERATION COUNT.  The signal-synchronised loop (Samples.loop: body node 10 computing x := f x and emitting `done`,
   exit gate 13 reading x, waiting for `done`, open by default) -  x := f x; while P x: x := f x  - for EVERY predicate P, body
   function f, start value, runner and budget of at least 2n supersteps: the run COMPLETES with x = f^n x0, where n >= 1 is the
   first n with P (f^n x0) = false; the body ran exactly n times and the gate exactly n times - no skipped, repeated or extra
   pass.  (Every pass must change x: a pass that leaves x unchanged bumps no version and the engine stops there.)  The
   executor is any function behaving as stated on the two nodes. *)
Theorem C04_loop_exact : forall (P : Z -> bool) (f : Z -> Z) (exec : node -> state -> dict val -> outcome) (r : runner) (x0 : Z) (n fuel : nat),
  (forall st x, exec body_node st [(1%positive, VInt x)] = OOk [(1%positive, VInt (f x)); (20%positive, VSentinel)] None) ->
  (forall st x, exec loop_gate st [(1%positive, VInt x)] = OOk [] (Some (Some (if P x then DOne 10 else DEnd)))) ->
  (1 <= n)%nat ->
  (forall j, (1 <= j < n)%nat -> P (Nat.iter j f x0) = true) ->
  P (Nat.iter n f x0) = false ->
  (forall j, (j < n)%nat -> Nat.iter (S j) f x0 <> Nat.iter j f x0) ->
  (2 * n <= fuel)%nat ->
  exists st log,
    execute exec r fuel loop [(1%positive, VInt x0)] = (RDone st, log) /\
    vals st !! 1%positive = Some (VInt (Nat.iter n f x0)) /\
    cnt 10 log = n /\ cnt 13 log = n.
Proof. exact loop_runs_exactly. Qed.
Print Assumptions C04_loop_exact.

(* ... in particular for the executor and function tables the correspondence harness runs against the implementation
   (the body adds m, the gate continues while x < bound) *)
Theorem C04_loop_family_exact : forall (m bound : Z) (r : runner) (x0 : Z) (n fuel : nat),
  (1 <= n)%nat ->
  (forall j, (1 <= j < n)%nat -> Z.ltb (Nat.iter j (fun x => x + m)%Z x0) bound = true) ->
  Z.ltb (Nat.iter n (fun x => x + m)%Z x0) bound = false ->
  m <> 0%Z ->
  (2 * n <= fuel)%nat ->
  exists st log,
    execute (exec_basic (loop_family_ft m bound) loop_gt) r fuel loop [(1%positive, VInt x0)] = (RDone st, log) /\
    vals st !! 1%positive = Some (VInt (Nat.iter n (fun x => x + m)%Z x0)) /\
    cnt 10 log = n /\ cnt 13 log = n.
Proof. exact loop_family_exact. Qed.
Print Assumptions C04_loop_family_exact.

(* ... and the other family: the gate reads the loop variable directly (no signal) -  while P x: x := f x  (loop1: body node 10,
   exit gate 13 with targets [10; END], open by default).  For every P, f, start value, runner and budget >= 2n+1 the run
   completes with x = f^n x0, n >= 0 the first n with P (f^n x0) = false, after exactly n body runs and n+1 gate runs. *)
Theorem C04_while_exact : forall (P : Z -> bool) (f : Z -> Z) (exec : node -> state -> dict val -> outcome) (r : runner) (x0 : Z) (n fuel : nat),
  (forall st x, exec body1 st [(1%positive, VInt x)] = OOk [(1%positive, VInt (f x))] None) ->
  (forall st x, exec gate1 st [(1%positive, VInt x)] = OOk [] (Some (Some (if P x then DOne 10 else DEnd)))) ->
  (forall j, (j < n)%nat -> P (Nat.iter j f x0) = true) ->
  P (Nat.iter n f x0) = false ->
  (forall j, (j < n)%nat -> Nat.iter (S j) f x0 <> Nat.iter j f x0) ->
  (2 * n + 1 <= fuel)%nat ->
  exists st log,
    execute exec r fuel loop1 [(1%positive, VInt x0)] = (RDone st, log) /\
    vals st !! 1%positive = Some (VInt (Nat.iter n f x0)) /\
    cnt 10 log = n /\ cnt 13 log = S n.
Proof. exact while_runs_exactly. Qed.
Print Assumptions C04_while_exact.

Theorem C04_while_family_exact : forall (m bound : Z) (r : runner) (x0 : Z) (n fuel : nat),
  (forall j, (j < n)%nat -> Z.ltb (Nat.iter j (fun x => x + m)%Z x0) bound = true) ->
  Z.ltb (Nat.iter n (fun x => x + m)%Z x0) bound = false ->
  m <> 0%Z ->
  (2 * n + 1 <= fuel)%nat ->
  exists st log,
    execute (exec_basic (loop_family_ft m bound) loop_gt) r fuel loop1 [(1%positive, VInt x0)] = (RDone st, log) /\
    vals st !! 1%positive = Some (VInt (Nat.iter n (fun x => x + m)%Z x0)) /\
    cnt 10 log = n /\ cnt 13 log = S n.
Proof. exact while_family_exact. Qed.
Print Assumptions C04_while_family_exact.

Example C04_loop_runs :
  let r := run_basic loop_ft loop_gt Sync 20 loop [(1%positive, VInt 0)] None in
  res_status r = 0 /\ res_values r = [(1%positive, VInt 3)] /\
  length (List.filter (fun c => Pos.eqb (fst c) 10) (concat (res_log r))) = 3 /\
  length (List.filter (fun c => Pos.eqb (fst c) 13) (concat (res_log r))) = 3.
Proof. vm_compute. repeat split; reflexivity. Qed.

Example C04_loop_short :
  let r := run_basic loop_ft loop_gt Sync 5 loop [(1%positive, VInt 0)] None in
  res_status r = 1 /\ res_err r = Some EInfiniteLoop.
Proof. vm_compute. split; reflexivity. Qed.
