(* C04 — loops: at most max_iterations supersteps; InfiniteLoopError carries the state so far. *)
From HG Require Import Base Engine Exec EngineProofs Samples.
From stdpp Require Import gmap.

(* A run never executes more than max_iterations supersteps (every graph, runner, executor). *)
Theorem C04_fuel : forall exec r fuel g pv st log,
  length (snd (run_loop exec r fuel g pv st log)) <= length log + fuel.
Proof. exact run_loop_log_length. Qed.
Print Assumptions C04_fuel.

(* What each outcome of the loop means: COMPLETED = quiescence reached within the budget;
   FAILED = a superstep failed, or exactly `fuel` supersteps ran, work remains, and the
   error is InfiniteLoopError carrying the state reached; PAUSED = a superstep paused. *)
Theorem C04_outcomes : forall exec r fuel g pv st log,
  match fst (run_loop exec r fuel g pv st log) with
  | RDone st' => exists k sk, k <= fuel /\ steps exec r g pv k st sk /\ ready_list g sk = [] /\ st' = ready_state g sk
  | RFailed e p =>
      (exists k sk calls, k < fuel /\ steps exec r g pv k st sk /\ ready_list g sk <> [] /\
         superstep exec r g (ready_state g sk) pv (ready_list g sk) = (SErr e p, calls)) \/
      (e = EInfiniteLoop /\ exists sk, steps exec r g pv fuel st sk /\ ready_list g sk <> [] /\ p = ready_state g sk)
  | RPaused pz s =>
      exists k sk s2 calls, k < fuel /\ steps exec r g pv k st sk /\ ready_list g sk <> [] /\
         superstep exec r g (ready_state g sk) pv (ready_list g sk) = (SPause pz s2, calls) /\ s = ready_state g sk
  end.
Proof. exact run_loop_spec. Qed.
Print Assumptions C04_outcomes.

(* Non-vacuity and the iteration count of a concrete signal-synchronised loop (family L2):
   x := 0; while x < 3: x := x + 1  — three body executions, three gate executions (the first body run passes the default-open gate), x = 3;
   with a budget one superstep short the run fails with InfiniteLoopError. *)
Example C04_loop_runs :
  let r := run_basic loop_ft loop_gt Sync 20 loop [(1%positive, VInt 0)] None in
  res_status r = 0 /\ res_values r = [(1%positive, VInt 3)] /\
  length (List.filter (fun c => Pos.eqb (fst c) 10) (concat (res_log r))) = 3 /\
  length (List.filter (fun c => Pos.eqb (fst c) 13) (concat (res_log r))) = 3.
Proof. vm_compute. repeat split; reflexivity. Qed.

Example C04_loop_short :
  let r := run_basic loop_ft loop_gt Sync 5 loop [(1%positive, VInt 0)] None in
  res_status r = 1 /\ res_err r = Some EInfiniteLoop.
Proof. vm_compute. split; reflexivity. Qed.
