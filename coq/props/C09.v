(* C09 — caching is transparent, even with eviction, corruption or a torn write. *)
From HG Require Import Base Rename Engine Cache CacheProofs.

(* every call through the cache returns what the executor returns, and keeps the cache valid (so a whole
   run, which only consumes outcomes, is unchanged); any sub-cache of a valid cache is valid (eviction) *)
Theorem C09_transparent : forall (ckeyT : Type) ckeqb exec (ckey : node -> dict val -> option ckeyT),
  (forall a b, ckeqb a b = true <-> a = b) ->
  (forall n st ins n' st' ins' k, ckey n ins = Some k -> ckey n' ins' = Some k -> exec n st ins = exec n' st' ins') ->
  forall c n st ins, cvalid ckeyT ckeqb exec ckey c ->
  fst (exec_cached ckeyT ckeqb exec ckey c n st ins) = exec n st ins /\
  cvalid ckeyT ckeqb exec ckey (snd (exec_cached ckeyT ckeqb exec ckey c n st ins)).
Proof. intros. apply cached_call_transparent; assumption. Qed.
Print Assumptions C09_transparent.

Theorem C09_eviction : forall (ckeyT : Type) ckeqb exec (ckey : node -> dict val -> option ckeyT) c c',
  (forall k e, lfind ckeqb c' k = Some e -> lfind ckeqb c k = Some e) ->
  cvalid ckeyT ckeqb exec ckey c -> cvalid ckeyT ckeqb exec ckey c'.
Proof. intros. eapply cvalid_evict; eauto. Qed.
Print Assumptions C09_eviction.

Theorem C09_no_recompute : forall (ckeyT : Type) ckeqb exec (ckey : node -> dict val -> option ckeyT) c n st ins k outs dec,
  ckey n ins = Some k -> lfind ckeqb c k = Some (outs, dec) ->
  exec_cached ckeyT ckeqb exec ckey c n st ins = (OOk outs dec, c).
Proof. intros. eapply cached_no_recompute; eassumption. Qed.
Print Assumptions C09_no_recompute.

(* equal keys: same definition, same output names, same arguments to the same ORIGINAL parameters *)
Theorem C09_key_sound : forall hin hin' n n' ins ins' k,
  cache_key true hin n ins = Some k -> cache_key true hin' n' ins' = Some k ->
  n_fn n = n_fn n' /\ n_outputs n = n_outputs n' /\ map_inputs_to_params hin ins = map_inputs_to_params hin' ins'.
Proof. unfold cache_key. intros hin hin' n n' ins ins' k [= <-] [= H1 H2 H3]. auto. Qed.
Print Assumptions C09_key_sound.

(* InMemoryCache: every reachable state has no duplicate key, at most max_size entries, and a hit returns
   the value of the latest set of that key *)
Theorem C09_lru : forall (K V : Type) (keqb : K -> K -> bool),
  (forall a b, keqb a b = true <-> a = b) ->
  forall max_size (ops : list (@lop K V)),
  let c := fold_left (lru_step keqb max_size) ops [] in
  NoDup (map fst c) /\ (forall m, max_size = Some m -> length c <= m) /\
  forall k v, fst (lru_get keqb c k) = Some v -> last_set keqb (rev ops) k = Some v.
Proof. intros. apply lru_reachable; assumption. Qed.
Print Assumptions C09_lru.

(* DiskCache: for every sequence of complete sets, sets torn between the two writes, payload / signature
   alterations, type changes and drops: a hit returns a value stored by a complete set of that key, and
   only bytes written by a complete set are ever handed to the deserialiser *)
Theorem C09_disk_safe : forall (bytes tag : Type) teqb (ser : val -> bytes) deser (mac : name -> bytes -> tag),
  (forall a b, teqb a b = true <-> a = b) -> (forall v, deser (ser v) = Some v) ->
  (forall k b k' b', mac k b = mac k' b' -> k = k' /\ b = b') ->
  forall ops k v, Forall (op_ok bytes tag mac) ops ->
  fst (disk_get bytes tag teqb deser mac (fold_left (disk_step bytes tag teqb ser deser mac) ops (disk_empty bytes tag)) k) = Hit v ->
  In (DSet bytes tag k v) (rev ops).
Proof. intros. eapply disk_get_safe; eauto. Qed.
Print Assumptions C09_disk_safe.

Theorem C09_disk_no_unauthenticated_load : forall (bytes tag : Type) teqb (ser : val -> bytes) deser (mac : name -> bytes -> tag),
  (forall a b, teqb a b = true <-> a = b) ->
  (forall k b k' b', mac k b = mac k' b' -> k = k' /\ b = b') ->
  forall ops b, Forall (op_ok bytes tag mac) ops ->
  In b (d_loads bytes tag (fold_left (disk_step bytes tag teqb ser deser mac) ops (disk_empty bytes tag))) ->
  exists k v, b = ser v /\ In (DSet bytes tag k v) (rev ops).
Proof. intros. eapply disk_loads_authentic; eauto. Qed.
Print Assumptions C09_disk_no_unauthenticated_load.

(* Non-vacuity: torn write over a good entry, then a get: miss, and the key is evicted *)
Example C09_nonvacuous :
  let step := disk_step cbytes ctag cteqb cser cdeser cmac in
  let d := fold_left step [DSet _ _ 1%positive (VInt 5); DSetCrashed _ _ 1%positive (VInt 6)] (disk_empty _ _) in
  fst (disk_get cbytes ctag cteqb cdeser cmac d 1%positive) = Miss /\
  fst (disk_get cbytes ctag cteqb cdeser cmac (fold_left step [DSet _ _ 1%positive (VInt 5)] (disk_empty _ _)) 1%positive) = Hit (VInt 5).
Proof. vm_compute. split; reflexivity. Qed.

(* ---- cacheable interrupts (runners/async_/superstep.py _is_resuming_interrupt): an interrupt's outcome depends on the run
        state - a supplied response passes as is - so the cache is bypassed when the caller supplied the response ---- *)
From HG Require Import Exec Nested CacheInterrupt.

Theorem C09_interrupt_transparent : forall (ckeyT : Type) ckeqb exec (ckey : node -> dict val -> option ckeyT),
  (forall a b, ckeqb a b = true <-> a = b) ->
  (forall n st ins n' st' ins' k, resuming n st = false -> resuming n' st' = false ->
     ckey n ins = Some k -> ckey n' ins' = Some k -> exec n st ins = exec n' st' ins') ->
  forall c n st ins, cvalid_b ckeyT ckeqb exec ckey c ->
  fst (exec_cached_b ckeyT ckeqb exec ckey c n st ins) = exec n st ins /\
  cvalid_b ckeyT ckeqb exec ckey (snd (exec_cached_b ckeyT ckeqb exec ckey c n st ins)).
Proof. intros. apply cached_call_transparent_b; assumption. Qed.
Print Assumptions C09_interrupt_transparent.

(* every history of calls sharing one cache, starting from the empty cache, returns what the executor returns *)
Theorem C09_interrupt_histories : forall (ckeyT : Type) ckeqb exec (ckey : node -> dict val -> option ckeyT),
  (forall a b, ckeqb a b = true <-> a = b) ->
  (forall n st ins n' st' ins' k, resuming n st = false -> resuming n' st' = false ->
     ckey n ins = Some k -> ckey n' ins' = Some k -> exec n st ins = exec n' st' ins') ->
  forall calls,
  fst (run_calls ckeyT ckeqb exec ckey [] calls) = map (fun x => match x with (n, st, ins) => exec n st ins end) calls.
Proof. intros ckeyT ckeqb exec ckey H1 H2 calls. apply history_transparent; [assumption | assumption | apply cvalid_b_empty]. Qed.
Print Assumptions C09_interrupt_histories.

(* without the bypass the statement is false of the model's own interrupt executor: the second answer is replaced by the
   first one and an unanswered run completes (the defect repaired by 16c8ea9) *)
Theorem C09_interrupt_legacy_refuted :
  let exec := exec_interrupt ft0 in
  let c1 := snd (CacheProofs.exec_cached positive Pos.eqb exec key1 [] ask (st_with (VStr 1)) ins0) in
  fst (CacheProofs.exec_cached positive Pos.eqb exec key1 c1 ask (st_with (VStr 2)) ins0) = OOk [(32%positive, VStr 1)] None /\
  exec ask (st_with (VStr 2)) ins0 = OOk [(32%positive, VStr 2)] None /\
  (exists p, exec ask st_none ins0 = OPause p) /\
  fst (CacheProofs.exec_cached positive Pos.eqb exec key1 c1 ask st_none ins0) = OOk [(32%positive, VStr 1)] None.
Proof. exact legacy_cached_interrupt_refuted. Qed.
Print Assumptions C09_interrupt_legacy_refuted.

(* ---- the store underneath DiskCache (diskcache.Disk.fetch): with the raw-only Disk of fix 47fd265 no byte string reaches an
        unpickler - the store's or DiskCache's - before its HMAC check passed; records in pickle mode, texts that are no
        signature and missing records are misses ---- *)
From HG Require Import DiskStore.

Theorem C09_store_loads_authenticated : forall (bytes tag : Type) teqb (deser : bytes -> option val) (mac : name -> bytes -> tag) k payload sig b,
  In b (snd (store_get bytes tag teqb deser mac true k payload sig)) ->
  payload = Some (RRaw bytes tag b) /\ exists t, sig = Some (RText bytes tag t) /\ teqb t (mac k b) = true.
Proof. intros. eapply raw_only_loads_authenticated; eassumption. Qed.
Print Assumptions C09_store_loads_authenticated.

Theorem C09_store_hit_authenticated : forall (bytes tag : Type) teqb (deser : bytes -> option val) (mac : name -> bytes -> tag) k payload sig v,
  fst (store_get bytes tag teqb deser mac true k payload sig) = SHit v ->
  exists b t, payload = Some (RRaw bytes tag b) /\ sig = Some (RText bytes tag t) /\ teqb t (mac k b) = true /\ deser b = Some v.
Proof. intros. eapply raw_only_hit_authenticated; eassumption. Qed.
Print Assumptions C09_store_hit_authenticated.

Theorem C09_store_foreign_records_miss : forall (bytes tag : Type) teqb (deser : bytes -> option val) (mac : name -> bytes -> tag) k payload sig,
  (match payload with Some (RRaw _ _ _) => False | _ => True end \/
   match sig with Some (RText _ _ _) => False | _ => True end) ->
  fst (store_get bytes tag teqb deser mac true k payload sig) = SMiss.
Proof. intros. apply raw_only_foreign_records_miss; assumption. Qed.
Print Assumptions C09_store_foreign_records_miss.

(* the store as diskcache ships it unpickles a pickle-mode record while reading it: the defect repaired by 47fd265 *)
Theorem C09_store_legacy_refuted : forall (bytes tag : Type) teqb (deser : bytes -> option val) (mac : name -> bytes -> tag) k b sig,
  In b (snd (store_get bytes tag teqb deser mac false k (Some (RPickle bytes tag b)) sig)).
Proof. intros. apply legacy_store_unpickles_unauthenticated. Qed.
Print Assumptions C09_store_legacy_refuted.
