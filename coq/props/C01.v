(* C01 — placeholder until the fix-point theorem lands (see C01 in DESIGN.md). *)
From HG Require Import Base Engine.
