(* C01 — placeholder until the engine theorems are added in this file. *)
From HG Require Import Base Engine.
