(* C01 — acyclic dataflow: every output equals the dependency-order evaluation. *)
From HG Require Import Base Engine Exec EngineProofs C01Proofs Samples.
From stdpp Require Import gmap.

(* The declarative spec is `Sol`: the dataflow equations of the graph
     - every run-time value is present;
     - a node whose inputs are all available (from an upstream output, a run-time value, a bound
       value or a default, in this order of precedence) has its function's outputs present;
     - nothing else is present: every value is a run-time value or the output of such a node.
   For an acyclic gate-free graph with unique outputs it has EXACTLY ONE solution (C01_unique):
   the dependency-order evaluation. *)

Theorem C01_unique : forall exec g pv, WF exec g pv ->
  forall V1 V2, Sol exec g pv V1 -> Sol exec g pv V2 -> V1 = V2.
Proof. exact Sol_unique. Qed.
Print Assumptions C01_unique.

(* Every COMPLETED run, under either runner, any node-list order and any budget, ends in that
   solution.  (Partial correctness: that a DAG completes within max_iterations supersteps is
   not part of this theorem; a run that does not is reported as InfiniteLoopError, C04.) *)
Theorem C01_values_partial : forall exec g pv, WF exec g pv -> List.NoDup (dkeys pv) ->
  forall r fuel st log, execute exec r fuel g pv = (RDone st, log) -> Sol exec g pv (vals st).
Proof. exact run_reaches_solution. Qed.
Print Assumptions C01_values_partial.

Theorem C01_runner_independent : forall exec g pv, WF exec g pv -> List.NoDup (dkeys pv) ->
  forall r1 r2 f1 f2 s1 s2 l1 l2,
  execute exec r1 f1 g pv = (RDone s1, l1) -> execute exec r2 f2 g pv = (RDone s2, l2) -> vals s1 = vals s2.
Proof. exact run_values_unique. Qed.
Print Assumptions C01_runner_independent.

(* A node has run iff its inputs can be satisfied in the final valuation; one that cannot be
   satisfied never ran (and, by sol_prov, contributes no value). *)
Theorem C01_runs_iff_satisfiable : forall exec g pv, WF exec g pv -> List.NoDup (dkeys pv) ->
  forall r fuel st log n, execute exec r fuel g pv = (RDone st, log) -> In n (g_nodes g) ->
  (execs st !! n_name n <> None <-> avail g (vals st) n).
Proof. exact run_node_iff. Qed.
Print Assumptions C01_runs_iff_satisfiable.

(* Non-vacuity: the diamond DAG of Samples.v is well-formed, completes, and its final values
   are the nested terms of the dependency-order evaluation. *)
Example C01_nonvacuous_run :
  let r := run_basic dag_ft [] Sync 10 dag [(1%positive, VInt 5)] None in
  res_status r = 0 /\
  dget (res_values r) 34 = Some (VTup [VStr 14; VTup [VStr 11; VTup [VStr 10; VInt 5]];
                                               VTup [VStr 12; VTup [VStr 10; VInt 5]]]).
Proof. vm_compute. split; reflexivity. Qed.

Example C01_nonvacuous_wf : WF (exec_basic dag_ft []) dag [(1%positive, VInt 5)].
Proof.
  assert (Hn : forall n, In n (g_nodes dag) ->
            (n = fnode 14 [32; 33] [34] 4 \/ n = fnode 11 [31] [32] 2 \/ n = fnode 10 [1] [31] 1 \/ n = fnode 12 [31] [33] 3)%positive).
  { simpl. intuition. }
  split.
  - intros n H. destruct (Hn n H) as [-> | [-> | [-> | ->]]]; split; reflexivity.
  - reflexivity.
  - repeat constructor; simpl; intuition congruence.
  - repeat constructor; simpl; intuition congruence.
  - exists (fun x : positive => match x with 10%positive => 0 | 11%positive => 1 | 12%positive => 1 | _ => 2 end).
    intros n m p Hi Hm Hp Ho.
    destruct (Hn n Hi) as [-> | [-> | [-> | ->]]]; destruct (Hn m Hm) as [-> | [-> | [-> | ->]]];
      simpl in *; intuition (try congruence; try lia); subst; simpl in *; intuition (try congruence; try lia).
  - intros x Hx. unfold dmem in Hx. simpl in Hx. destruct (Pos.eqb 1 x) eqn:E; [|discriminate].
    apply Pos.eqb_eq in E. subst. simpl. intuition congruence.
  - intros n p H. destruct (Hn n H) as [-> | [-> | [-> | ->]]]; reflexivity.
  - reflexivity.
  - intros n s ins outs dec H He. destruct (Hn n H) as [-> | [-> | [-> | ->]]]; vm_compute in He;
      injection He as <- <-; split; reflexivity.
  - intros n s ins p. unfold exec_basic. destruct (dget dag_ft (n_fn n)); [|discriminate].
    destruct (n_kind n); try discriminate.
    destruct (eval_fexp f (n_ndata n) ins); try discriminate. destruct (wrap_outputs n v); discriminate.
Qed.
