(* C01 — acyclic dataflow: every output equals the dependency-order evaluation. *)
From HG Require Import Base Engine Exec EngineProofs C01Proofs C01Term C01Once Samples.
From stdpp Require Import gmap.

(* The declarative spec is `Sol`: the dataflow equations of the graph
     - every run-time value is present;
     - a node whose inputs are all available (from an upstream output, a run-time value, a bound
       value or a default, in this order of precedence) has its function's outputs present;
     - nothing else is present: every value is a run-time value or the output of such a node.
   For an acyclic gate-free graph with unique outputs it has EXACTLY ONE solution (C01_unique):
   the dependency-order evaluation. *)

Theorem C01_unique : forall exec g pv, WF exec g pv ->
  forall V1 V2, Sol exec g pv V1 -> Sol exec g pv V2 -> V1 = V2.
Proof. exact Sol_unique. Qed.
Print Assumptions C01_unique.

(* Every COMPLETED run, under either runner, any node-list order and any budget, ends in that
   solution (partial correctness; termination is C01_terminates / C01_completes below). *)
Theorem C01_values_partial : forall exec g pv, WF exec g pv -> List.NoDup (dkeys pv) ->
  forall r fuel st log, execute exec r fuel g pv = (RDone st, log) -> Sol exec g pv (vals st).
Proof. exact run_reaches_solution. Qed.
Print Assumptions C01_values_partial.

Theorem C01_runner_independent : forall exec g pv, WF exec g pv -> List.NoDup (dkeys pv) ->
  forall r1 r2 f1 f2 s1 s2 l1 l2,
  execute exec r1 f1 g pv = (RDone s1, l1) -> execute exec r2 f2 g pv = (RDone s2, l2) -> vals s1 = vals s2.
Proof. exact run_values_unique. Qed.
Print Assumptions C01_runner_independent.

(* A node has run iff its inputs can be satisfied in the final valuation; one that cannot be
   satisfied never ran (and, by sol_prov, contributes no value). *)
Theorem C01_runs_iff_satisfiable : forall exec g pv, WF exec g pv -> List.NoDup (dkeys pv) ->
  forall r fuel st log n, execute exec r fuel g pv = (RDone st, log) -> In n (g_nodes g) ->
  (execs st !! n_name n <> None <-> avail g (vals st) n).
Proof. exact run_node_iff. Qed.
Print Assumptions C01_runs_iff_satisfiable.

(* TERMINATION.  `rank` is any function witnessing acyclicity (a producer ranks below its consumers) and K any strict
   bound on the ranks (the depth of the graph + 1): after K supersteps nothing is ready any more, under either runner. *)
Theorem C01_terminates : forall exec g pv, WF exec g pv -> List.NoDup (dkeys pv) ->
  forall rank : name -> nat,
  (forall n m p, In n (g_nodes g) -> In m (g_nodes g) -> In p (n_inputs n) -> In p (n_outputs m) ->
     rank (n_name m) < rank (n_name n)) ->
  forall r K sk, (forall n, In n (g_nodes g) -> rank (n_name n) < K) ->
  steps exec r g pv K (init_state pv) sk -> ready_list g sk = [].
Proof. exact dag_quiescent_within. Qed.
Print Assumptions C01_terminates.

(* With max_iterations >= K the run never ends in InfiniteLoopError: a failure is the failure of a node's superstep. *)
Theorem C01_budget_suffices : forall exec g pv, WF exec g pv -> List.NoDup (dkeys pv) ->
  forall rank : name -> nat,
  (forall n m p, In n (g_nodes g) -> In m (g_nodes g) -> In p (n_inputs n) -> In p (n_outputs m) ->
     rank (n_name m) < rank (n_name n)) ->
  forall r fuel K, (forall n, In n (g_nodes g) -> rank (n_name n) < K) -> K <= fuel ->
  match fst (execute exec r fuel g pv) with
  | RDone _ => True
  | RFailed e p => exists k sk calls, k < fuel /\ steps exec r g pv k (init_state pv) sk /\ ready_list g sk <> [] /\
                     superstep exec r g (ready_state g sk) pv (ready_list g sk) = (SErr e p, calls)
  | RPaused _ _ => True
  end.
Proof. exact dag_budget_suffices. Qed.
Print Assumptions C01_budget_suffices.

(* TOTAL CORRECTNESS: if, moreover, no node function raises, the run completes, and (C01_values_partial) in the
   unique solution of the dataflow equations. *)
Theorem C01_completes : forall exec g pv, WF exec g pv -> List.NoDup (dkeys pv) ->
  forall rank : name -> nat,
  (forall n m p, In n (g_nodes g) -> In m (g_nodes g) -> In p (n_inputs n) -> In p (n_outputs m) ->
     rank (n_name m) < rank (n_name n)) ->
  forall r fuel K, (forall n, In n (g_nodes g) -> rank (n_name n) < K) -> K <= fuel ->
  (forall n s ins e, In n (g_nodes g) -> exec n s ins <> ORaise e) ->
  exists st, fst (execute exec r fuel g pv) = RDone st /\ Sol exec g pv (vals st).
Proof.
  intros exec g pv Hwf Hnd rank Hrank r fuel K HK Hf Hnr.
  destruct (dag_completes exec g pv Hwf Hnd rank Hrank r fuel K HK Hf Hnr) as [st Hst].
  exists st. split; [exact Hst|].
  destruct (execute exec r fuel g pv) as [res log] eqn:E. simpl in Hst. subst res.
  exact (run_reaches_solution exec g pv Hwf Hnd r fuel st log E).
Qed.
Print Assumptions C01_completes.

(* Non-vacuity: the diamond DAG of Samples.v is well-formed, completes, and its final values
   are the nested terms of the dependency-order evaluation. *)
Example C01_nonvacuous_run :
  let r := run_basic dag_ft [] Sync 10 dag [(1%positive, VInt 5)] None in
  res_status r = 0 /\
  dget (res_values r) 34 = Some (VTup [VStr 14; VTup [VStr 11; VTup [VStr 10; VInt 5]];
                                               VTup [VStr 12; VTup [VStr 10; VInt 5]]]).
Proof. vm_compute. split; reflexivity. Qed.

(* EXACTLY ONCE.  When no parameter that an upstream node feeds has a fallback (signature default or binding), a node
   scheduled in one superstep of a run is never scheduled again later in that run (a node function is invoked exactly
   when its node is in the ready list of an executed superstep); with C01_runs_iff_satisfiable: the nodes whose inputs
   can be satisfied run exactly once, the others never. *)
Theorem C01_at_most_once : forall exec g pv, WF exec g pv -> List.NoDup (dkeys pv) ->
  (forall n p, In n (g_nodes g) -> In p (n_inputs n) -> In p (all_outputs g) ->
     pos_in p (n_hasdef n) = false /\ dmem (g_bound g) p = false) ->
  forall r k1 k2 a b c calls n,
  steps exec r g pv k1 (init_state pv) a ->
  In n (ready_list g a) ->
  superstep exec r g (ready_state g a) pv (ready_list g a) = (SOk b, calls) ->
  steps exec r g pv k2 b c ->
  ~ In n (ready_list g c).
Proof. exact scheduled_once. Qed.
Print Assumptions C01_at_most_once.

(* the bound is exact on the diamond (depth 2, K = 3): it completes with max_iterations = 3 and not with 2 *)
Example C01_nonvacuous_budget :
  res_status (run_basic dag_ft [] Sync 3 dag [(1%positive, VInt 5)] None) = 0 /\
  res_status (run_basic dag_ft [] Async 3 dag [(1%positive, VInt 5)] None) = 0 /\
  res_status (run_basic dag_ft [] Sync 2 dag [(1%positive, VInt 5)] None) = 1.
Proof. vm_compute. repeat split; reflexivity. Qed.

Example C01_nonvacuous_wf : WF (exec_basic dag_ft []) dag [(1%positive, VInt 5)].
Proof.
  assert (Hn : forall n, In n (g_nodes dag) ->
            (n = fnode 14 [32; 33] [34] 4 \/ n = fnode 11 [31] [32] 2 \/ n = fnode 10 [1] [31] 1 \/ n = fnode 12 [31] [33] 3)%positive).
  { simpl. intuition. }
  split.
  - intros n H. destruct (Hn n H) as [-> | [-> | [-> | ->]]]; split; try reflexivity; left; reflexivity.
  - reflexivity.
  - repeat constructor; simpl; intuition congruence.
  - repeat constructor; simpl; intuition congruence.
  - exists (fun x : positive => match x with 10%positive => 0 | 11%positive => 1 | 12%positive => 1 | _ => 2 end).
    intros n m p Hi Hm Hp Ho.
    destruct (Hn n Hi) as [-> | [-> | [-> | ->]]]; destruct (Hn m Hm) as [-> | [-> | [-> | ->]]];
      simpl in *; intuition (try congruence; try lia); subst; simpl in *; intuition (try congruence; try lia).
  - intros x Hx. unfold dmem in Hx. simpl in Hx. destruct (Pos.eqb 1 x) eqn:E; [|discriminate].
    apply Pos.eqb_eq in E. subst. simpl. intuition congruence.
  - intros n p H. destruct (Hn n H) as [-> | [-> | [-> | ->]]]; reflexivity.
  - reflexivity.
  - intros n s ins outs dec H _ He. destruct (Hn n H) as [-> | [-> | [-> | ->]]]; vm_compute in He;
      injection He as <- <-; split; reflexivity.
  - intros n s ins p _. unfold exec_basic. destruct (dget dag_ft (n_fn n)); [|discriminate].
    destruct (n_kind n); try discriminate.
    destruct (eval_fexp f (n_ndata n) ins); try discriminate. destruct (wrap_outputs n v); discriminate.
  - intros n H. destruct (Hn n H) as [-> | [-> | [-> | ->]]]; reflexivity.
Qed.
