(* C02 — determinism across completion order, runner, concurrency. *)
From HG Require Import Base CheckLib Engine Exec EngineProofs NodeOrder RunnerProofs Samples.
From stdpp Require Import gmap.

(* Any completion order of the concurrently running nodes of a step gives the same state,
   the same reported failure and the same calls (for every executor, every graph incl. cyclic
   and gated ones).  max_concurrency only restricts which completion orders can occur (C15). *)
Theorem C02_schedule : forall exec g snap pv rd pi1 pi2,
  Permutation pi1 pi2 -> List.NoDup (map n_name pi1) ->
  superstep_async exec g snap pv rd pi1 = superstep_async exec g snap pv rd pi2.
Proof. exact superstep_async_schedule. Qed.
Print Assumptions C02_schedule.

(* On a step without failure both runners produce the same state and the same calls. *)
Theorem C02_step_eq : forall exec g snap pv rd,
  List.filter is_interrupt rd = [] -> Forall (step_ok exec g snap pv) rd ->
  superstep exec Sync g snap pv rd = superstep exec Async g snap pv rd.
Proof. exact superstep_runners_agree. Qed.
Print Assumptions C02_step_eq.

(* A failing step reports the same error under both runners and every schedule: the first
   failing node in ready order. *)
Theorem C02_same_error : forall exec g snap pv rd,
  List.filter is_interrupt rd = [] ->
  sres_err (fst (superstep exec Sync g snap pv rd)) = sres_err (fst (superstep exec Async g snap pv rd)).
Proof. exact superstep_same_error. Qed.
Print Assumptions C02_same_error.

(* Isolation: nodes of one step read the pre-step snapshot only.  In the model this is the
   type of run_one (it receives `snap`, never the state under construction); the theorem
   below states the observable consequence for the synchronous runner: the successful part of
   a step is the parallel composition of its nodes. *)
Theorem C02_isolation : forall exec g snap pv rd acc log,
  Forall (step_ok exec g snap pv) rd ->
  superstep_sync exec g snap pv rd acc log =
  (SOk (fold_left (apply_success exec g snap pv) rd (write_decisions exec g snap pv rd acc)),
   log ++ async_calls exec g snap pv rd).
Proof. exact superstep_sync_ok. Qed.
Print Assumptions C02_isolation.

(* NODE ORDER.  With unique output names (and node functions that return values for their own declared outputs only), a run
   that completes under one listing of the nodes completes under every other listing of the same nodes, in the SAME state -
   hence with the same returned values - and makes the same calls in every superstep, up to their order.  Any graph: gates,
   cycles, wait_for included; both runners. *)
Theorem C02_node_order : forall exec g1 g2 pv,
  Permutation (g_nodes g1) (g_nodes g2) -> g_bound g1 = g_bound g2 -> g_active g1 = g_active g2 ->
  List.NoDup (map n_name (g_nodes g1)) ->
  (forall n s ins outs dec, In n (g_nodes g1) -> exec n s ins = OOk outs dec ->
     forall k, In k (dkeys outs) -> In k (n_outputs n)) ->
  (forall n m k, In n (g_nodes g1) -> In m (g_nodes g1) -> In k (n_outputs n) -> In k (n_outputs m) -> n_name n = n_name m) ->
  (forall n, In n (g_nodes g1) -> is_interrupt n = false) ->
  forall r fuel s l1, execute exec r fuel g1 pv = (RDone s, l1) ->
  exists l2, execute exec r fuel g2 pv = (RDone s, l2) /\ Forall2 (@Permutation call) l1 l2.
Proof. exact node_order_execute. Qed.
Print Assumptions C02_node_order.

(* the scheduler's view is listing-independent in EVERY state: same cleared decisions, same ready nodes *)
Theorem C02_ready_order : forall g1 g2, Permutation (g_nodes g1) (g_nodes g2) -> g_bound g1 = g_bound g2 ->
  g_active g1 = g_active g2 -> List.NoDup (map n_name (g_nodes g1)) ->
  forall st, fst (ready g1 st) = fst (ready g2 st) /\ Permutation (snd (ready g1 st)) (snd (ready g2 st)).
Proof.
  intros g1 g2 Hp Hb Ha Hn st. split; [apply ready_state_perm | apply ready_list_perm]; assumption.
Qed.
Print Assumptions C02_ready_order.

(* RUNNERS, whole runs.  For every graph without interrupts (cyclic and gated ones included), every executor and every budget:
   a COMPLETED synchronous run IS the asynchronous run (same final state, same per-superstep call log); a FAILED one fails
   with the same error (the partial states may differ: the synchronous step stops at the failing node); a paused one pauses
   at the same place with the same state. *)
Theorem C02_runner_independent : forall exec g pv,
  (forall n, In n (g_nodes g) -> is_interrupt n = false) -> forall fuel,
  match execute exec Sync fuel g pv with
  | (RDone s, l) => execute exec Async fuel g pv = (RDone s, l)
  | (RFailed e _, _) => exists p' l', execute exec Async fuel g pv = (RFailed e p', l')
  | (RPaused pz s, _) => exists l', execute exec Async fuel g pv = (RPaused pz s, l')
  end.
Proof. exact runners_agree. Qed.
Print Assumptions C02_runner_independent.

(* non-vacuity on a cyclic, gated program: the signal-synchronised loop has no interrupt and completes under the synchronous
   runner - hence, by the theorem, under the asynchronous one with the same state and log; with a short budget it fails with
   InfiniteLoopError under both *)
Example C02_runner_independent_loop :
  (forall n, In n (g_nodes loop) -> is_interrupt n = false) /\
  res_status (run_basic loop_ft loop_gt Sync 20 loop [(1%positive, VInt 0)] None) = 0 /\
  res_status (run_basic loop_ft loop_gt Async 20 loop [(1%positive, VInt 0)] None) = 0 /\
  res_err (run_basic loop_ft loop_gt Sync 5 loop [(1%positive, VInt 0)] None) = Some EInfiniteLoop /\
  res_err (run_basic loop_ft loop_gt Async 5 loop [(1%positive, VInt 0)] None) = Some EInfiniteLoop.
Proof. split; [intros n [<-|[<-|[]]]; reflexivity | vm_compute; repeat split; reflexivity]. Qed.

(* Non-vacuity: the diamond listed in reverse order runs to the same values. *)
Example C02_node_order_nonvacuous :
  let dag' := mk_graph (rev (g_nodes dag)) (g_bound dag) (g_active dag) in
  Permutation (g_nodes dag) (g_nodes dag') /\
  dictV_eqb (res_values (run_basic dag_ft [] Sync 10 dag [(1%positive, VInt 5)] None))
            (res_values (run_basic dag_ft [] Async 10 dag' [(1%positive, VInt 5)] None)) = true.
Proof. split; [apply Permutation_rev | vm_compute; reflexivity]. Qed.

(* Non-vacuity: a real two-node step of the diamond DAG, both orders. *)
Example C02_nonvacuous :
  let exec := exec_basic dag_ft [] in
  let snap := init_state [(1%positive, VInt 5); (31%positive, VInt 7)] in
  let rd := ready_list dag snap in
  length rd = 3 /\ Forall (step_ok exec dag snap []) rd /\
  superstep_async exec dag snap [] rd rd = superstep_async exec dag snap [] rd (rev rd).
Proof.
  vm_compute. split; [reflexivity|]. split; [|reflexivity].
  repeat constructor; eexists; eexists; eexists; reflexivity.
Qed.
