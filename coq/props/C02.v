(* C02 — determinism across completion order, runner, concurrency. *)
From HG Require Import Base Engine Exec EngineProofs Samples.
From stdpp Require Import gmap.

(* Any completion order of the concurrently running nodes of a step gives the same state,
   the same reported failure and the same calls (for every executor, every graph incl. cyclic
   and gated ones).  max_concurrency only restricts which completion orders can occur (C15). *)
Theorem C02_schedule : forall exec g snap pv rd pi1 pi2,
  Permutation pi1 pi2 -> List.NoDup (map n_name pi1) ->
  superstep_async exec g snap pv rd pi1 = superstep_async exec g snap pv rd pi2.
Proof. exact superstep_async_schedule. Qed.
Print Assumptions C02_schedule.

(* On a step without failure both runners produce the same state and the same calls. *)
Theorem C02_step_eq : forall exec g snap pv rd,
  List.filter is_interrupt rd = [] -> Forall (step_ok exec g snap pv) rd ->
  superstep exec Sync g snap pv rd = superstep exec Async g snap pv rd.
Proof. exact superstep_runners_agree. Qed.
Print Assumptions C02_step_eq.

(* A failing step reports the same error under both runners and every schedule: the first
   failing node in ready order. *)
Theorem C02_same_error : forall exec g snap pv rd,
  List.filter is_interrupt rd = [] ->
  sres_err (fst (superstep exec Sync g snap pv rd)) = sres_err (fst (superstep exec Async g snap pv rd)).
Proof. exact superstep_same_error. Qed.
Print Assumptions C02_same_error.

(* Isolation: nodes of one step read the pre-step snapshot only.  In the model this is the
   type of run_one (it receives `snap`, never the state under construction); the theorem
   below states the observable consequence for the synchronous runner: the successful part of
   a step is the parallel composition of its nodes. *)
Theorem C02_isolation : forall exec g snap pv rd acc log,
  Forall (step_ok exec g snap pv) rd ->
  superstep_sync exec g snap pv rd acc log =
  (SOk (fold_left (apply_success exec g snap pv) rd (write_decisions exec g snap pv rd acc)),
   log ++ async_calls exec g snap pv rd).
Proof. exact superstep_sync_ok. Qed.
Print Assumptions C02_isolation.

(* Non-vacuity: a real two-node step of the diamond DAG, both orders. *)
Example C02_nonvacuous :
  let exec := exec_basic dag_ft [] in
  let snap := init_state [(1%positive, VInt 5); (31%positive, VInt 7)] in
  let rd := ready_list dag snap in
  length rd = 3 /\ Forall (step_ok exec dag snap []) rd /\
  superstep_async exec dag snap [] rd rd = superstep_async exec dag snap [] rd (rev rd).
Proof.
  vm_compute. split; [reflexivity|]. split; [|reflexivity].
  repeat constructor; eexists; eexists; eexists; reflexivity.
Qed.
