"""Regenerates MANIFEST.json from the table below (kept in one place so it stays valid)."""
import json
from pathlib import Path

VERIF = Path(__file__).resolve().parent.parent
ALL = [f"C{i:02d}" for i in range(1, 21)]

CLAIMED = {
    "C06": dict(
        category="proof",
        text="Theorems (coq/props/C06.v) over ALL rename histories: reverse/forward rename maps, call-site mapping, defaults, GraphNode "
             "default/bound lookup, map_over/clone translation and output mapping equal the positional specification sigma. Tied to /repo by "
             "differential runs of all five node kinds under generated histories (direct observables and real runner executions). WHOLE GRAPHS (C06_alpha_equations, C06_alpha_runs): renaming every value name of an acyclic gate-free graph consistently through an injective map (executors differing only by dictionary names) renames the solutions of the dataflow equations, so completed runs of the renamed graph return the original values under the new names; hypotheses instantiated in C06_alpha_example.",
        design_ref="DESIGN.md section 5 C06",
        note="Model = coq/theories/Rename.v written by hand from nodes/_rename.py, _callable.py, base.py, graph_node.py; batch_id grouping is "
             "abstracted (one with_* call = one batch); alpha-renaming of whole runs is covered by the run-level oracle of the harness, not yet by a theorem.",
        technique="Coq proof (induction over rename histories) + vm_compute differential correspondence",
    ),
}

CLAIMED.update({
    "C01": dict(
        category="proof",
        text="Theorems for every executor that is a function of (node, arguments), every acyclic gate-free graph with unique outputs and "
             "every input: the dataflow equations (Sol: argument precedence upstream output > run-time > bound > default; unsatisfiable nodes "
             "contribute nothing) have exactly one solution; every COMPLETED run of either runner ends in it; a node has run iff its inputs "
             "can be satisfied - at most once when no upstream-fed parameter has a fallback; and the run TERMINATES: after depth+1 supersteps nothing is ready (settled-nodes invariant by induction on rank), "
             "so with max_iterations >= depth+1 it never ends in InfiniteLoopError and, when no node function raises, it completes in that "
             "solution (total correctness). Tied to /repo by runs against the dependency-order evaluator SpecDenote.denote and the engine model.",
        design_ref="DESIGN.md section 5 C01",
        note="'exactly once' is proved as: without fallbacks on upstream-fed parameters a node is scheduled in at most one superstep of a run "
             "(C01_at_most_once) and has run iff its inputs can be satisfied; the call log itself is compared by the oracle; graphs with wait_for are outside the theorems (known finding F-j shows the full statement is false there). "
             "Model: Engine.v; executor contract: WF in C01Proofs.v; termination: C01Term.v.",
        technique="Coq proof (invariant over reachable states, uniqueness of the dataflow fix-point by induction on rank, termination by a "
                  "settled-nodes invariant) + spec oracle",
    ),
    "C02": dict(
        category="proof",
        text="Theorems for every executor, graph (cyclic and gated included): an asynchronous superstep is invariant under any "
             "permutation of the completion order; on a non-failing step SyncRunner's and AsyncRunner's supersteps are equal (state and calls); "
             "a failing step reports the same first-in-ready-order error under both; and NODE ORDER - with unique output names a run that "
             "completes under one listing of the nodes completes under every other listing in the same state, with the same calls per "
             "superstep up to order (the scheduler's derived maps, stale-decision clearing and ready list are listing-independent in every "
             "state; effects of nodes with distinct names and disjoint outputs commute). WHOLE RUNS (C02_runner_independent): for every graph without interrupts a COMPLETED synchronous run IS the asynchronous run (same state, same per-superstep log), a failed one fails with the same error, a paused one pauses at the same place. Tied to /repo by running each generated program "
             "under SyncRunner, AsyncRunner with adversarial completion orders x max_concurrency, and permuted node lists.",
        design_ref="DESIGN.md section 5 C02",
        note="The partial-value inclusion on failing runs is checked by the differential oracle, not proved (known finding F-b shows it is "
             "false when a sibling listed after the failing node rewrites a name). Model: coq/theories/Engine.v; node order: NodeOrder.v.",
        technique="Coq proof (commutation of state updates, gmap extensionality, permutation-equivariance of the ready list) + "
                  "adversarial-schedule differential runs",
    ),
    "C03": dict(
        category="proof",
        text="Theorems about the scheduler's ready list in EVERY state of EVERY graph: a gated node is scheduled only if a controlling gate's "
             "standing decision names it or a default-open controlling gate has not executed; a ready gate holds back its targets; a standing "
             "non-END decision is fresh (stale ones are cleared first); END is terminal. Tied to /repo by exact call-sequence correspondence and "
             "an oracle over the implementation's own NodeStart/RouteDecision events. WHOLE RUNS (C03_run_routes): for the routed fan gate(c) -> B | C | END with arbitrary branch functions and any routing function, under either runner and any budget >= 2, the gate runs once and first, exactly the selected branch runs once, the other never and its output is absent; instantiated with the harness's executor (C03_model_routes) and the model program itself is run against the implementation (gated_obs).",
        design_ref="DESIGN.md section 5 C03",
        note="Run level: C03_closed_gate_first (a node behind a closed-by-default gate is never scheduled before the gate has completed an execution). "
             "The exactly-the-selected-branches corollary for acyclic graphs is checked by the oracle, not proved: exact-branches (an unselected target never runs), "
             "selected-runs (a target named by a gate runnable from the start does run, whatever the other gates sharing it decided) and "
             "pass-per-decision (a loop body starts at most once per decision naming it, plus once for a default-open gate).",
        technique="Coq proof (characterisation of get_ready_nodes / stale-decision clearing) + event-stream oracle",
    ),
    "C04": dict(
        category="proof",
        text="Theorems for every graph/runner/executor: a run performs at most max_iterations supersteps; COMPLETED means quiescence within the "
             "budget, InfiniteLoopError means exactly `fuel` supersteps ran, work remains, and the carried state is the state reached; a gated "
             "node re-runs only on a gate decision newer than its previous run (no repeated or extra pass, every reachable state of every graph). "
             "EXACT COUNT (C04_loop_exact): the signal-synchronised loop `x := f x; while P x: x := f x` completes, for every P, f, start value, "
             "runner and budget >= 2n, with x = f^n x0 after exactly n body runs and n gate runs (n = first n >= 1 with P false), provided "
             "every pass changes x; instantiated (C04_loop_family_exact) with the executor and function tables the harness runs against the "
             "implementation. Other loop shapes (direct gates, several body nodes, exit nodes, loops inside GraphNodes) are decided against "
             "the sequential while / do-while spec (SpecWhile.v) on the implementation for all m<=4, N<=12, both gate kinds, both exits, "
             "budgets need-1/need/need+1.",
        design_ref="DESIGN.md section 5 C04",
        note="The exact-count theorem covers the signal-synchronised two-node shape (any P, f); the other generated loop shapes have the "
             "budget and fresh-decision theorems plus the per-loop spec oracle, not a count theorem.",
        technique="Coq proof (induction on fuel; invariant between passes for the exact count) + spec oracle (sequential loop) + differential correspondence",
    ),
    "C05": dict(
        category="proof",
        text="Theorems (every depth, both runners): executing a nested graph as a node IS translating the addressed inputs to the inner "
             "names (C06), running the inner graph, and translating its (selected) outputs back; errors surface unchanged, a pause gets the "
             "wrapper's name prefixed; the executor does not read the outer state. INLINING: on the dataflow equations of C01, whenever "
             "the wrapper's inputs are present, the solutions of the nested system and of the flat system (wrapper replaced by the inner "
             "nodes) coincide (C05_inlining_equations / _converse / _values); on runs of the engine model, a COMPLETED run of a graph "
             "containing a GraphNode (Nested.exec_ng, no renames, exposing all inner outputs) and a COMPLETED run of the flat graph return "
             "the same values, for either runner on the outer, inner and flat runs, any budgets and node orders (C05_inlining_runs; "
             "hypotheses instantiated in C05_inlining_example). Renames at the boundary: C05_boundary_inputs/_outputs. Inner selections, "
             "inner/outer/double bindings, renamed wrappers combined with inlining, depth 1-3 and repeated runs with mutated defaults are "
             "decided on generated nestings (flat vs nested input spec and values).",
        design_ref="DESIGN.md section 5 C05",
        note="The run-level inlining theorem is for acyclic gate-free inner graphs, identity boundary, completed runs; the other "
             "configurations are established per generated nesting by the oracle plus the model correspondence. A value bound on the inner graph and "
             "consumed by a plain node outside it is compared with the flat graph's binding (depth 1-2, both runners); the shape where that outside "
             "consumer has a signature default is rejected by the constructor on purpose (pinned by the repository's tests) and is not compared.",
        technique="Coq proof (GraphNode executor characterisation; inlining via uniqueness of the solution of the dataflow equations) + metamorphic oracle flat vs nested",
    ),
    "C09": dict(
        category="proof",
        text="Theorems: (i) every call through a valid cache returns what the executor returns and keeps the cache valid; sub-caches of a "
             "valid cache are valid (eviction); a retained entry is a hit without invocation; (ii) the cache key determines the definition, "
             "the output names and the arguments by ORIGINAL parameter (the pre-fix key is refuted in Legacy.v); (iii) every reachable "
             "InMemoryCache has unique keys, at most max_size entries, and hits return the latest set (LRU refinement of a partial map); "
             "(iv) for every sequence of complete sets, sets torn between the two writes, and every corruption class, a DiskCache hit returns a "
             "value stored by a complete set of that key and only such bytes reach the deserialiser; (v) cacheable interrupts: with the cache "
             "bypassed when the caller supplied the response (CacheInterrupt.v), every call and every history of calls sharing one cache returns "
             "what the executor returns (C09_interrupt_transparent / _histories); without the bypass the statement is refuted on the model's own "
             "interrupt executor (C09_interrupt_legacy_refuted, the defect repaired by 16c8ea9); (vi) at the level of the store's records "
             "(DiskStore.v: raw / text / pickle-mode records, diskcache's fetch): with the raw-only Disk no byte string reaches an unpickler "
             "before its HMAC check passed and foreign records are misses (C09_store_*), the stock store is refuted. Tied to /repo by LRU/Disk differential "
             "runs on a real directory with a pickle.loads spy, by cached-vs-uncached program runs over shared backends, and by pause / answer "
             "histories over a cache=True interrupt.",
        design_ref="DESIGN.md section 5 C09",
        note="Oracle families beyond the model: functions differing only in the names they call, arguments that compare equal but differ (1 / 1.0 / True, 0.0 / -0.0), one bit flipped in cache.db where the bytes live. Definition hashes (hash_definition: source, bytecode, captured values, bound receivers) are decided by oracle families only, not modelled. "
             "SHA-256 / HMAC are idealised as injective tagging, and forged signatures are excluded (op_ok) — Section hypotheses, not "
             "axioms; diskcache/SQLite single-write atomicity and 'no exception' are runtime behaviour, covered by the fault enumeration.",
        technique="Coq proof (invariants over LRU / disk operation histories; per-call cache refinement) + fault enumeration on real backends",
    ),
    "C10": dict(
        category="proof",
        text="Theorems: zip enumerates position-wise combinations and rejects unequal lengths; product enumerates the cartesian product in "
             "row-major order of map_over, with the length law and emptiness; result i of a map is the single run on combination i; a mapping "
             "node's outputs are lists with one entry per combination (None where the item failed or did not produce it) and raise mode "
             "surfaces the first failing item; with a bounded worker pool every completion order yields the input order (MathComp proof: "
             "sorted permutation of iota); items whose node mutates its signature defaults are isolated under every interleaving (MapIsolation.v, "
             "C10_items_isolated, with the pre-fix sharing of one default copy refuted by computation). Tied to /repo by runner.map and "
             "mapping-node runs against single runs, under adversarial completion orders, incl. items mutating defaults / cloned broadcasts.",
        design_ref="DESIGN.md section 5 C10",
        note="clone settings (deep copies of broadcast values) and the asyncio queue itself are runtime behaviour, decided by the oracle; the "
             "pool is modelled by its completion order.",
        technique="Coq proof (list induction; ssreflect sorted_eq for the pool) + differential oracle against single runs",
    ),
    "C08": dict(
        category="proof",
        text="Theorems for every node list, binding, entry-point and selection configuration: required / optional / entry-point "
             "parameters are pairwise disjoint; a required name is neither bound nor defaulted; omitting a required name is never "
             "accepted; required names present + every cycle seeded through one listed entry point is accepted; binding removes a name "
             "from required; a scheduled node can always resolve its inputs (no KeyError). Tied to /repo by comparing Graph.inputs and the "
             "runner's accept/reject decision with the model for every single omission, with call and event logs checked empty on rejection.",
        design_ref="DESIGN.md section 5 C08",
        note="validate_inputs is modelled for calls that supply graph inputs only (no internal overrides / bound output names: known "
             "finding territory F-g); the selection scope has an order-dependent worklist in the implementation and is modelled by its "
             "two extremes; sufficiency for cyclic/gated graphs is acceptance + resolvability, not 'every intended node runs'. Graphs derived (bind / unbind) "
             "from a graph that was RUN with a run-time select are checked by an oracle on their own contract.",
        technique="Coq proof (filter characterisation of compute_input_spec / validate_inputs) + differential correspondence per omission",
    ),
    "C11": dict(
        category="proof",
        text="Theorems for every executor/graph/runner: the error of a failing superstep is the error raised by the first failing ready "
             "node (nothing wraps it), the run loop passes it on unchanged (or reports InfiniteLoopError), a nested run's failure surfaces "
             "from the wrapper as the same error at every depth; the partial state of a failing synchronous step is exactly the nodes "
             "listed before the failing one applied to the snapshot (async: every successful sibling), and no earlier value is lost. "
             "Tied to /repo by making each node of generated programs (flat, gated, cyclic, nested to depth 3) raise a fresh exception "
             "object and checking identity (`is`), FAILED values against the failure-free run, and the model's partial state.",
        design_ref="DESIGN.md section 5 C11",
        note="The failing node may be a gate (its routing function raises). 'Only values of nodes that completed' is the provenance theorem C11_partial_provenance / C11_no_unfinished_output (under the "
             "executor contract that a node returns values for its declared outputs only). Exception identity itself is Python runtime behaviour (checked, not modelled: err ids); map-level propagation is covered by "
             "C10; interrupt handlers' exceptions are wrapped in RuntimeError by the implementation (known finding F-c, pinned by a repository test).",
        technique="Coq proof (characterisation of failing supersteps and of the nested executor) + fault enumeration over nodes",
    ),
    "C12": dict(
        category="proof",
        text="CHECKER (proved sound): every event stream the implementation delivers for a generated execution (nested to depth 3, sibling "
             "nested graphs, mapping nodes, runner.map, cyclic, gated, failing, on_missing=error; both runners; sync and suspending async "
             "processors) is certified by wf_b, whose acceptance is PROVED to imply: each span opened once and closed exactly once, never "
             "closed before it is opened, the parent of every open span still open at every point, root RunStart first and root RunEnd last "
             "with the caller-observed status. EMISSION MODEL (proved accepted): the span tree of every run of the nested engine model "
             "(EventsTree.tree_ng: node spans per superstep, NodeError for raising calls, inner / map runs under GraphNode spans; "
             "tree_map_top for runner.map) is well shaped and its synchronous depth-first stream is accepted (C12_model_nested, "
             "C12_model_nested_run, C12_model_top_map); EVERY schedule - any order of starting spans under running parents and ending spans "
             "whose children are done, no superstep barrier assumed - of every well-formed span table, in particular of every model run's "
             "table, is accepted (C12_any_schedule, C12_model_any_schedule). Tied to /repo: synchronous runs are compared EVENT BY EVENT with "
             "the model's stream (flat: run_events / events_of_result; nested, mapped, failing, top-level map: lin_root of the tree), "
             "asynchronous runs as span TREES up to the order within a superstep (sim). The harness additionally checks one shutdown per "
             "top-level call, silence of rejected calls, and that a nested run is parented to the node that launched it.",
        design_ref="DESIGN.md section 5 C12",
        note="That the implementation's asynchronous stream IS one of the schedules is established per trace (wf_b + tree comparison), not "
             "as a theorem about the code; cache hits, interrupts and run-time selections are outside the tree comparison (wf_b only). "
             "Known finding F-d (empty map).",
        technique="Coq proof (span-automaton invariants; structural induction over span trees; simulation of the concurrent span transition system by the checker) + event-by-event / tree correspondence with real event logs",
    ),
    "C13": dict(
        category="proof",
        text="Theorems on the dispatcher model: in non-strict mode (used by every runner) emit delivers each event to every processor once, in "
             "order, and never lets an exception out; the same for shutdown; hence after any stream every processor (failing or healthy) has "
             "the complete stream and exactly one shutdown. Tied to /repo by exhaustive fault enumeration: a processor raising at EVERY event "
             "index of every generated execution's stream, on every event, and at shutdown (sync and suspending async processors, both "
             "runners), with status/values/error/invocations compared to the processor-free run and a healthy processor's stream checked. "
             "Processors that CONSUME event payloads instead of raising: DispatchPayload.v proves that an event carrying a copy of the scheduler's "
             "decision list leaves every pre-existing object unchanged under any processor actions, and refutes the aliased event; every program is "
             "also run beside a payload-emptying processor.",
        design_ref="DESIGN.md section 5 C13",
        note="Half of the failing processors are unhashable objects (plain dataclass processors). That no dispatch site outside the dispatcher lets an exception escape is exactly what the fault enumeration over the real code "
             "checks; the model covers emit/emit_async/shutdown/shutdown_async.",
        technique="Coq proof (dispatcher model) + exhaustive fault enumeration over event indices",
    ),
    "C14": dict(
        category="proof",
        text="Theorems: a handler returning None makes the interrupt executor pause naming the node, its first output (the answer key) and "
             "its first input's value; with the response present and the node not yet executed it passes without consulting the handler and "
             "yields exactly what a handler returning that response yields; the asynchronous step runs the first ready interrupt alone "
             "(one at a time); a pause inside a nested graph surfaces with the wrapper's name prefixed at every depth; the PAUSED result "
             "carries the state before the interrupt's step. Tied to /repo by driving DAGs with 1-3 interrupts (siblings ready together, "
             "self-answering handlers, falsy answers, nested) through complete pause/resume histories. WHOLE RUNS (C14_run_pauses / _resumes / _answered, C14_model_run): for the chain A -> I[interrupt] -> B(a, d) with arbitrary node functions under the asynchronous runner: a handler that does not answer pauses after A and before B (pause identity, returned state, call log); the call with the response supplied resumes (I passes it on, B runs once, the run completes); values and call log equal those of the run whose handler answers; the model program is run against the implementation (chain_obs).",
        design_ref="DESIGN.md section 5 C14",
        note="partial: 'resume == handler returned the response' for whole runs is decided per generated history by the oracle (the "
             "executor-level statement is proved); interrupts whose upstream-fed input has a default pause early and again (known finding F-f); "
             "an interrupt inside a nested graph cannot be answered (F-n). Every node that may pause - a nested graph holding an interrupt included "
             "(fix aa302cc) - runs alone in its step: C14_pausing_step_calls_only_the_pausing_node, and only such nodes pause in the model's "
             "executor at every nesting depth (C14_only_isolated_nodes_pause), so the pre-step state returned with a pause is everything computed.",
        technique="Coq proof (interrupt executor / async isolation / nested pause path) + pause-resume history oracle",
    ),
    "C15": dict(
        category="proof",
        text="Theorems on a transition system over job trees (supersteps with barriers, nested runs, unbounded maps, worker pools; permits "
             "taken only by leaves around their body; any enabled transition may fire): running + free = k in every reachable configuration, "
             "hence at most k bodies execute; every reachable unfinished configuration with k >= 1 has an enabled transition (no deadlock); "
             "every transition decreases a measure, so every schedule is finite (no starvation, no fairness assumed); a waiting leaf with no "
             "free permit and nobody running is stuck (what a container holding a permit would cause). Tied to /repo by an adversarial "
             "scheduler that holds as many real node bodies open as AsyncRunner allows: peak <= k, peak == min(k, width), termination under a "
             "watchdog, same results as the unlimited run.",
        design_ref="DESIGN.md section 5 C15",
        note="partial: asyncio.Semaphore wake-up order and ContextVar inheritance by tasks are runtime behaviour, exercised by the harness "
             "and not modelled; the model is purpose-built (not the Engine model) and tied to the code by the measured peaks.",
        technique="Coq proof (invariant, progress and termination of a permit transition system) + adversarial-scheduler measurement",
    ),
    "C16": dict(
        category="proof",
        text="Theorems: with entry points only active nodes are ever scheduled (every state); a returned key is a declared output (or a "
             "selected name) holding the state's value and never an ordering sentinel. Tied to /repo by runs over entry-point sets x "
             "graph/run-time selections x on_missing, including failed results; the active set is computed by the spec (reachability). WHOLE RUNS (C16_run_scope): every node call of every run, however it ends, is a call of a node of the active set.",
        design_ref="DESIGN.md section 5 C16",
        note="the on_missing policy is modelled (Engine.select_outputs) and proved to report exactly the selected names absent from the state (C16_missing_names, C16_on_missing); nested exposure is checked differentially.",
        technique="Coq proof (filter characterisation) + differential correspondence",
    ),
    "C17": dict(
        category="proof",
        text="Safety theorems for every state of every graph: a scheduled waiter's names exist, no other producer of them is scheduled in the "
             "same step, and a waiter that ran before sees a strictly newer version. Liveness: every emission strictly increases the signal's "
             "version (after the fix recorded in known_findings.json) and the ready list is complete. Tied to /repo by an event-stream oracle "
             "and exact call-sequence correspondence incl. multi-producer signals and two-signal waiters in cycles. WHOLE RUNS (C17_waiter_once_per_production): in the signal-synchronised loop the waiting gate runs exactly as often as the signal is produced, for every body function and predicate.",
        design_ref="DESIGN.md section 5 C17",
        note="Provenance ('a producer of the awaited signal has completed', C17_after_producer) is proved under the executor contract that a node returns values for its declared outputs only; iteration counts of signal-synchronised loops are decided by the oracle (SpecWhile).",
        technique="Coq proof (ready-list characterisation, version arithmetic) + event-stream oracle",
    ),
    "C19": dict(
        category="proof",
        text="Validate.valid (the constructor's whole validation pipeline, incl. the mutex-or-ordered rule with reachability decided by a proven "
             "procedure) accepts a graph iff it is well formed in the declarative sense (C19_valid_iff_wellformed); one flaw of any class at any "
             "node, edge or producer, at any nesting depth, makes it reject (13 corollaries). Typing.compat is proved to be a fixed point of the "
             "documented rule table for type expressions of any depth, with identity / Any / union / generic / subclass / Annotated / TypeVar rules "
             "as equations. Tied to /repo by: every valid generated graph x every flaw class x position (also nested, behind renames applied to "
             "used nodes) against Graph(...), model outcome == real outcome, and is_type_compatible == compat on all ordered pairs of a closed "
             "type universe. Typed edges that cross nested-graph boundaries are modelled in BoundaryTypes.v (get_input_types / get_output_types "
             "through renames and map_over, the pairwise edge check): the check passes iff every offered pair is annotated and compatible, a nested "
             "graph offers exactly one type per inner LEAF consumer / producer at any depth, and the verdict is invariant under permutation of the "
             "inner node lists (C19_boundary_*); random typed trees: real type lists == model lists, real verdict == edge_ok.",
        design_ref="DESIGN.md section 5 C19",
        note="Inside Validate.v a GraphNode's interface (inputs, outputs, defaults, and the ONE representative type per name) is read from the real "
             "wrapper; BoundaryTypes.v derives the type LISTS from the inner structure but takes the exposed name sets from the wrapper; string "
             "predicates and issubclass are evaluated in Python; errors raised by node constructors themselves are outside the Graph constructor. "
             "One GraphNode object re-used across two strict graphs (as it is, then mapped / renamed) is decided by an oracle against a fresh wrapper.",
        technique="Coq proof (decision procedure <-> declarative well-formedness; fixed-point equation of the type judgement) + exhaustive flaw injection and differential correspondence",
    ),
    "C07": dict(
        category="proof",
        text="Objects live in a heap model (Derive.v: shared references are shared locations, copies are fresh allocations, cached properties are "
             "fields filled on first read). Proved for every history of bind / unbind / select / with_entrypoint / add_nodes / as_node / with_name / "
             "with_inputs / with_outputs / map_over / cache-filling reads, including operations that raise: the view of every object that existed "
             "before is unchanged afterwards (C07_views_never_change), results are new objects, siblings are independent. Tied to /repo by random "
             "histories on the real objects: every live object is re-snapshotted through the public API after every operation (half of the objects "
             "kept 'cold', i.e. without the harness's own cache fills), run results compared at creation and at the end, and the model's result "
             "locations and final views compared with the real objects.",
        design_ref="DESIGN.md section 5 C07",
        note="Oracle additions: every graph snapshot's runs are repeated with a run-time selection (what one relative remembers per selection must not reach another), and every nested-graph node is also observed through a derivation made at snapshot time. Argument validation of bind/select/with_entrypoint is not modelled (failing calls are oracle-checked only); the structure hash and run "
             "results are oracle-only.",
        technique="Coq proof (heap frame invariant by induction over operation histories) + history oracle and differential correspondence",
    ),
    "C18": dict(
        category="proof",
        text="Node calls of any number of runs interleave arbitrarily over one heap (Isolation.v: get_value_source order, deep copy for DEFAULT only, "
             "bodies that mutate what they receive). Proved for every schedule: objects no run references - all signature-default objects - are never "
             "modified; edge / provided / bound values arrive as the very same object, a default as a fresh one; the caller's mapping and the bindings "
             "are never written; when only default-resolved parameters are mutated no pre-existing object changes and every body sees the initial "
             "contents (pristine defaults) whatever other runs did. Tied to /repo by histories of 2-4 runs (one runner / fresh runners, sync / async "
             "sequential / async concurrent with random suspension points, a second graph over the same node objects, nested graphs with narrowed "
             "selection): defaults unchanged, pristine-on-entry, equal inputs => equal results, caller dict unchanged, object identities; the recorded "
             "interleaving is replayed in the model and what every body saw / produced / received must agree.",
        design_ref="DESIGN.md section 5 C18",
        note="'equal results' is proved as: every body sees the same entry contents (a deterministic body then returns the same value); nested "
             "histories are oracle-only; deepcopy is modelled on flat lists of ints.",
        technique="Coq proof (frame and entry-contents invariants by induction over arbitrary interleavings) + run-history oracle and differential correspondence",
    ),
})

CLAIMED["C20"] = dict(
    category="proof",
    text="Theorems: Graph.to_flat_graph (Viz.flatten_all) lists every node of every nesting level exactly once, under its parent, with "
         "unique hierarchical ids whose string form is injective; enumerate_valid_expansion_states (Viz.enum_states) returns without "
         "repetition exactly the states in which every expanded container has all enclosing containers expanded, build_expansion_state(depth) "
         "is one of them and shows exactly the levels <= depth; and the checker Viz.viz_problems reports no problem EXACTLY for the drawings "
         "satisfying the declarative predicate Faithful (ids declared once, edge ends declared, every node shown iff visible, every data / "
         "control / ordering dependency - computed at leaf granularity through nested graphs and boundary renames - drawn between visible "
         "representatives, every edge justified by a dependency / graph input / END target / output). The renderer is not modelled: "
         "EVERY drawing it produces for the generated graphs (every valid expansion state x both output modes of the interactive data, Mermaid "
         "at every depth x both modes) is validated by that checker against ground truth read from the real Graph objects; to_flat_graph, the "
         "state set, build_expansion_state and the producer / consumer maps by visibility (viz/_common.py, modelled in VizMaps.v with theorems on what "
         "they contain) are compared with the model. Shared output names: VizProducers.complete_forest restates Graph._edges_from_every_producer "
         "(a data edge from EVERY producer of a consumed name, at every nesting level) with completeness and soundness theorems "
         "(C20_every_producer_has_an_edge, C20_only_matches_added); the harness hands the raw nx_graph edges to the model, which completes them. "
         "Nodes created with hide=True are outside the checker's model: for graphs holding them only the self-consistency clause (every edge endpoint is a "
         "declared node / id of that state) is decided, by an oracle over both views (fix 0111817).",
    design_ref="DESIGN.md section 5 C20",
    note="partial: faithfulness of the renderer is translation validation per generated drawing by a proved checker, not a theorem about "
         "renderer code (viz/renderer/*.py, mermaid.py are heuristic and not modelled); known findings F-k (values renamed at container "
         "boundaries are routed by name), F-o (of several producers of one name inside an expanded container only one is drawn) and F-p (a node "
         "name spelling a nested Mermaid id). Trusted: the transcription of drawings / Mermaid lines into Viz.drawing literals.",
    technique="Coq proof (flattening, state enumeration, checker <-> declarative Faithful) + translation validation of every drawing by the proved checker",
)

REASON_TODO = "not claimed yet: model/theorems for this property are not built in this revision (see DESIGN.md section 10)"


def main():
    checks = []
    for pid in ALL:
        if pid not in CLAIMED:
            continue
        c = CLAIMED[pid]
        checks.append({
            "property_id": pid,
            "quick_cmd": f"bin/check {pid} --tier quick",
            "thorough_cmd": f"bin/check {pid} --tier thorough",
            "evidence_file": f"/verif/evidence/{pid}.json",
            "replay_cmd_template": f"bin/check {pid} --replay {{path}}",
            "engine": "hgverif",
            "level_claimed": {"category": c["category"], "text": c["text"], "design_ref": c["design_ref"]},
            "level_note": c["note"],
            "technique": c["technique"],
        })
    m = {
        "version": 1,
        "setup_cmd": "bin/setup",
        "hooks": {
            "guard": "HYPERGRAPH_VERIF",
            "enable": "no instrumentation hook exists in /repo; checks import hypergraph from /repo/src (PYTHONPATH) and observe through public extension points",
            "baseline_off_cmd": "cd /repo && /venv/bin/python -m pytest -ra -q -p no:cacheprovider --timeout=900 --continue-on-collection-errors",
            "source_commits": [],
            "add_only": True,
        },
        "engines": [{"name": "hgverif", "path": "bin/check", "serves_properties": sorted(CLAIMED), "kind_free_text":
                     "Coq 8.16.1 development (coq/theories model, coq/props theorems) + Python differential harness evaluating generated cases.v files with vm_compute"}],
        "checks": checks,
        "not_applicable": [{"property_id": p, "reason": REASON_TODO} for p in ALL if p not in CLAIMED],
        "notes": "fix: commits in /repo are listed in known_findings.json (fixed entries).",
    }
    (VERIF / "MANIFEST.json").write_text(json.dumps(m, indent=1))


if __name__ == "__main__":
    main()
