"""Regenerates MANIFEST.json from the table below (kept in one place so it stays valid)."""
import json
from pathlib import Path

VERIF = Path(__file__).resolve().parent.parent
ALL = [f"C{i:02d}" for i in range(1, 21)]

CLAIMED = {
    "C06": dict(
        category="proof",
        text="Theorems (coq/props/C06.v) over ALL rename histories: reverse/forward rename maps, call-site mapping, defaults, GraphNode "
             "default/bound lookup, map_over/clone translation and output mapping equal the positional specification sigma. Tied to /repo by "
             "differential runs of all five node kinds under generated histories (direct observables and real runner executions).",
        design_ref="DESIGN.md section 5 C06",
        note="Model = coq/theories/Rename.v written by hand from nodes/_rename.py, _callable.py, base.py, graph_node.py; batch_id grouping is "
             "abstracted (one with_* call = one batch); alpha-renaming of whole runs is covered by the run-level oracle of the harness, not yet by a theorem.",
        technique="Coq proof (induction over rename histories) + vm_compute differential correspondence",
    ),
}

REASON_TODO = "not claimed yet: model/theorems for this property are not built in this revision (see DESIGN.md section 10)"


def main():
    checks = []
    for pid in ALL:
        if pid not in CLAIMED:
            continue
        c = CLAIMED[pid]
        checks.append({
            "property_id": pid,
            "quick_cmd": f"bin/check {pid} --tier quick",
            "thorough_cmd": f"bin/check {pid} --tier thorough",
            "evidence_file": f"/verif/evidence/{pid}.json",
            "replay_cmd_template": f"bin/check {pid} --replay {{path}}",
            "engine": "hgverif",
            "level_claimed": {"category": c["category"], "text": c["text"], "design_ref": c["design_ref"]},
            "level_note": c["note"],
            "technique": c["technique"],
        })
    m = {
        "version": 1,
        "setup_cmd": "bin/setup",
        "hooks": {
            "guard": "HYPERGRAPH_VERIF",
            "enable": "no instrumentation hook exists in /repo; checks import hypergraph from /repo/src (PYTHONPATH) and observe through public extension points",
            "baseline_off_cmd": "cd /repo && /venv/bin/python -m pytest -ra -q -p no:cacheprovider --timeout=900 --continue-on-collection-errors",
            "source_commits": [],
            "add_only": True,
        },
        "engines": [{"name": "hgverif", "path": "bin/check", "serves_properties": sorted(CLAIMED), "kind_free_text":
                     "Coq 8.16.1 development (coq/theories model, coq/props theorems) + Python differential harness evaluating generated cases.v files with vm_compute"}],
        "checks": checks,
        "not_applicable": [{"property_id": p, "reason": REASON_TODO} for p in ALL if p not in CLAIMED],
        "notes": "fix: commits in /repo are listed in known_findings.json (fixed entries).",
    }
    (VERIF / "MANIFEST.json").write_text(json.dumps(m, indent=1))


if __name__ == "__main__":
    main()
