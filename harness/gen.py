"""Generators of PDL programs (DESIGN.md section 4.2).  Every random choice comes from the rng
handed in, so a case replays from its seed."""
from __future__ import annotations

import copy


def gen_dag(rng, max_nodes=7, emits=0.0, edge_defaults=0.15, none_values=True):
    """A random acyclic, gate-free graph: fan-in/out, diamonds, multi-output, side-effect-only nodes,
    shared inputs; then a random node-list order."""
    n_nodes = rng.randint(1, max_nodes)
    values, ext, default_of = [], [], {}
    int_valued = set()
    nodes = []
    for i in range(n_nodes):
        k_in = rng.choice([0, 1, 1, 2, 2, 3])
        ins = []
        for _ in range(k_in):
            r = rng.random()
            if values and r < 0.55:
                ins.append(rng.choice(values))
            elif ext and r < 0.75:
                ins.append(rng.choice(ext))
            else:
                x = f"x{len(ext)}"
                ext.append(x)
                int_valued.add(x)
                ins.append(x)
        ins = list(dict.fromkeys(ins))
        k_out = rng.choice([0, 1, 1, 1, 2, 3])
        outs = [f"v{len(values) + j}" for j in range(k_out)]
        name = f"n{i}"
        r = rng.random()
        if ins and ins[0] in int_valued and k_out == 1 and r < 0.2:
            fn = ["add", rng.randint(-3, 3)]
            int_valued.add(outs[0])
        elif k_out <= 1 and r < 0.3:
            fn = ["const", rng.choice([0, 1, 7, "s", None] if none_values else [0, 1, 7, "s"])]
        else:
            fn = ["sym", name]
        n = {"name": name, "kind": "func", "inputs": ins, "outputs": outs, "emit": [], "wait_for": [], "fn": fn, "defaults": {}}
        if emits and rng.random() < emits:
            n["emit"] = [f"sig{i}"]
        nodes.append(n)
        values.extend(outs)
    # defaults are per NAME (the constructor's consistent-defaults rule): all consumers or none
    for x in ext:
        if rng.random() < 0.35:
            default_of[x] = rng.randint(50, 59)
    for v in values:
        if rng.random() < edge_defaults:
            default_of[v] = rng.randint(60, 69)
    for n in nodes:
        n["defaults"] = {p: default_of[p] for p in n["inputs"] if p in default_of}
    # wait_for on emitted signals of earlier nodes
    if emits:
        sigs = [(i, n["emit"][0]) for i, n in enumerate(nodes) if n["emit"]]
        for i, n in enumerate(nodes):
            cands = [s for j, s in sigs if j < i]
            if cands and rng.random() < 0.5:
                n["wait_for"] = rng.sample(cands, rng.randint(1, min(2, len(cands))))
    rng.shuffle(nodes)
    return {"nodes": nodes, "bound": {}, "entrypoints": None, "selected": None, "ext": ext, "int_valued": sorted(int_valued)}


def add_gates(rng, g, n_gates=None):
    """Decorates a DAG with if/else and route gates over existing nodes (targets), driven by
    dedicated int inputs or int-valued values; several gates may share a target."""
    g = copy.deepcopy(g)
    nodes = g["nodes"]
    names = [n["name"] for n in nodes if n["kind"] == "func"]
    if not names:
        return g
    n_gates = n_gates if n_gates is not None else rng.randint(1, 3)
    for gi in range(n_gates):
        gname = f"g{gi}"
        if gi > 0 and rng.random() < 0.4:
            names = names + [f"g{gi - 1}"]   # a gate may itself be the target of a later gate (chained gates)
        # gate input: a fresh external int, or an int-valued value (so the gate may become ready later than its targets)
        if g["int_valued"] and rng.random() < 0.5:
            gin = rng.choice(g["int_valued"])
        else:
            gin = f"c{gi}"
            g["ext"].append(gin)
            g["int_valued"].append(gin)
        if rng.random() < 0.5:
            tt = rng.choice(names + ["END"])
            ff = rng.choice([x for x in names + ["END"] if x != tt] or ["END"])
            if tt == ff:
                ff = "END" if tt != "END" else names[0]
            node = {"name": gname, "kind": "ifelse", "inputs": [gin], "outputs": [], "emit": [], "wait_for": [], "defaults": {},
                    "fn": ["glt", rng.randint(0, 3)], "when_true": tt, "when_false": ff, "default_open": rng.random() < 0.6}
        else:
            k = rng.randint(1, min(3, len(names)))
            tg = rng.sample(names, k) + (["END"] if rng.random() < 0.5 else [])
            multi = rng.random() < 0.35
            tbl = []
            for key in range(0, 4):
                if multi:
                    d = rng.sample(tg, rng.randint(0, len(tg))) if rng.random() < 0.85 else None
                else:
                    d = rng.choice(tg + [None])
                tbl.append([key, d])
            dflt = None if rng.random() < 0.5 else (rng.sample(tg, 1) if multi else rng.choice(tg))
            fb = None
            if not multi and rng.random() < 0.3:
                fb = rng.choice(tg)
            node = {"name": gname, "kind": "route", "inputs": [gin], "outputs": [], "emit": [], "wait_for": [], "defaults": {},
                    "fn": ["gtable", tbl, dflt], "targets": tg, "multi": multi, "fallback": fb, "default_open": rng.random() < 0.6}
        nodes.insert(rng.randint(0, len(nodes)), node)
    return g


def gen_loop(rng, m=None, N=None, kind=None, exit_node=None, wait_sync=False, accum=False):
    """Loop family L1 (gate reads the loop variable) / L2 (gate synchronised on the last body node's emit):
    body chain b1..bm closing on x, gate of kind route/ifelse, leaving by END or an exit node."""
    m = m if m is not None else rng.randint(1, 3)
    N = N if N is not None else rng.randint(0, 6)
    kind = kind or rng.choice(["route", "ifelse"])
    exit_node = exit_node if exit_node is not None else (rng.random() < 0.5)
    nodes = []
    prev = "x"
    for j in range(1, m + 1):
        out = "x" if j == m else f"y{j}"
        n = {"name": f"b{j}", "kind": "func", "inputs": [prev], "outputs": [out], "emit": [], "wait_for": [], "defaults": {}, "fn": ["add", 1 if j == 1 else 0]}
        if j == m and wait_sync:
            n["emit"] = ["done"]
        nodes.append(n)
        prev = out
    # intermediate values must change every iteration for the chain to keep firing: every body node adds
    for n in nodes:
        n["fn"] = ["add", 1]
    # the loop counter advances by m per iteration; the gate continues while x < m*N
    bound = m * N
    ex = "finish" if exit_node else "END"
    if kind == "ifelse":
        gate = {"name": "gate", "kind": "ifelse", "inputs": ["x"], "outputs": [], "emit": [], "wait_for": ["done"] if wait_sync else [],
                "defaults": {}, "fn": ["glt", bound], "when_true": "b1", "when_false": ex, "default_open": True}
    else:
        tbl = [[k, "b1"] for k in range(0, bound)]
        gate = {"name": "gate", "kind": "route", "inputs": ["x"], "outputs": [], "emit": [], "wait_for": ["done"] if wait_sync else [],
                "defaults": {}, "fn": ["gtable", tbl, ex], "targets": ["b1", ex], "multi": False, "fallback": None, "default_open": True}
    nodes.append(gate)
    if exit_node:
        nodes.append({"name": "finish", "kind": "func", "inputs": ["x"], "outputs": ["result"], "emit": [], "wait_for": [], "defaults": {}, "fn": ["sym", "finish"]})
    if accum:
        nodes.append({"name": "acc", "kind": "func", "inputs": ["hist", "x"], "outputs": ["hist"], "emit": [], "wait_for": [], "defaults": {}, "fn": ["add", 1]})
    rng.shuffle(nodes)
    return {"nodes": nodes, "bound": {}, "entrypoints": None, "selected": None, "ext": ["x"], "int_valued": ["x"],
            "loop": {"m": m, "N": N, "kind": kind, "exit": exit_node, "wait_sync": wait_sync, "accum": accum}}


def gen_cycle(rng):
    """Ungated multi-node cycles with several possible entry points (values saturate so the run converges)."""
    k = rng.randint(2, 4)
    names = [f"c{j}" for j in range(k)]
    vals = [f"w{j}" for j in range(k)]
    nodes = []
    for j in range(k):
        ins = [vals[(j - 1) % k]]
        if rng.random() < 0.4:
            ins.append(f"x{j}")
        if rng.random() < 0.3 and k > 2:
            ins.append(vals[(j - 2) % k])
        nodes.append({"name": names[j], "kind": "func", "inputs": list(dict.fromkeys(ins)), "outputs": [vals[j]], "emit": [], "wait_for": [],
                      "defaults": {}, "fn": ["const", j]})
    if rng.random() < 0.5:
        nodes.append({"name": "tail", "kind": "func", "inputs": [vals[0]], "outputs": ["t"], "emit": [], "wait_for": [], "defaults": {}, "fn": ["sym", "tail"]})
    rng.shuffle(nodes)
    return {"nodes": nodes, "bound": {}, "entrypoints": None, "selected": None, "ext": [], "int_valued": []}


def gen_two_cycles(rng):
    """Two independent data cycles (self-accumulating nodes) tied together only by one gate's control edges."""
    k = rng.randint(2, 3)
    nodes = []
    targets = []
    for j in range(k):
        ins = [f"acc{j}"] + ([f"acc{j - 1}"] if j > 0 and rng.random() < 0.6 else []) + (["seed"] if rng.random() < 0.3 else [])
        nodes.append({"name": f"loop{j}", "kind": "func", "inputs": ins, "outputs": [f"acc{j}"], "emit": [], "wait_for": [], "defaults": {},
                      "fn": ["const", j]})
        targets.append(f"loop{j}")
    tbl = [[0, rng.choice(targets)], [1, "END"]]
    gate_ins = [f"acc{j}" for j in range(k)] if rng.random() < 0.7 else ["ctl"]
    nodes.append({"name": "gate", "kind": "route", "inputs": gate_ins, "outputs": [], "emit": [], "wait_for": [], "defaults": {},
                  "fn": ["gtable", tbl, "END"], "targets": targets + ["END"], "multi": False, "fallback": None, "default_open": rng.random() < 0.5})
    rng.shuffle(nodes)
    return {"nodes": nodes, "bound": {}, "entrypoints": None, "selected": None, "ext": ["ctl"], "int_valued": ["ctl"]}


def complete_inputs(rng, g, required, optional, provide_optional=0.5):
    """Run-time inputs: every required name, optional ones with some probability."""
    vals = {}
    for x in required:
        vals[x] = rng.randint(0, 3)
    for x in optional:
        if rng.random() < provide_optional:
            vals[x] = rng.randint(0, 3)
    return vals


def make_inputs(rng, g, G=None, provide_optional=0.5, int_range=(0, 3)):
    """Reads the real graph's input spec and returns run-time inputs supplying every required name,
    the parameters of one listed cycle entry point, and some optional names."""
    if G is None:
        from harness import engine
        G = engine.real_input_spec(g)
    spec = G.inputs
    vals = {}
    for x in spec.required:
        vals[x] = rng.randint(*int_range)
    if spec.entrypoints:
        ep = sorted(spec.entrypoints)[0]
        for x in spec.entrypoints[ep]:
            vals[x] = rng.randint(*int_range)
    for x in spec.optional:
        if rng.random() < provide_optional:
            vals[x] = rng.randint(*int_range)
    return vals


def gen_program(rng, family=None):
    """A program from one of the families: dag, gated (DAG + gates), loop (L1/L2), emit (DAG with emit/wait_for)."""
    family = family or rng.choice(["dag", "gated", "gated", "loop", "loop_sync", "emit"])
    if family == "dag":
        return gen_dag(rng), family
    if family == "gated":
        return add_gates(rng, gen_dag(rng, max_nodes=6, edge_defaults=0.1)), family
    if family == "loop":
        return gen_loop(rng, wait_sync=False, accum=rng.random() < 0.3), family
    if family == "loop_sync":
        return gen_loop(rng, wait_sync=True), family
    if family == "emit":
        return gen_dag(rng, max_nodes=6, emits=0.5), family
    if family == "cyc":
        return gen_cycle(rng), family
    if family == "twocyc":
        return gen_two_cycles(rng), family
    raise ValueError(family)


# --------------------------------------------------------------------------- nesting


def iface(n):
    """(consumed names, produced names) of a PDL node; for a nested graph: what crosses its boundary."""
    if n["kind"] != "graph":
        return list(n["inputs"]) + list(n.get("wait_for", [])), list(n.get("outputs", [])) + list(n.get("emit", []))
    ins, outs = [], []
    for m in n["graph"]["nodes"]:
        i, o = iface(m)
        ins += i
        outs += o
    free = [p for p in dict.fromkeys(ins) if p not in outs]
    sel = n["graph"].get("selected")
    if sel is not None:
        outs = [o for o in outs if o in sel]
    return free, list(dict.fromkeys(outs))


def _data_graph(g):
    import networkx as nx
    D = nx.DiGraph()
    first = {}
    for n in g["nodes"]:
        D.add_node(n["name"])
        for o in iface(n)[1]:
            first.setdefault(o, n["name"])
    for n in g["nodes"]:
        for p in iface(n)[0]:
            if p in first and first[p] != n["name"]:
                D.add_edge(first[p], n["name"])
    return D


def convex_subset(rng, g, min_size=1):
    """A dependency-closed group of nodes: nothing leaves the group and comes back."""
    import networkx as nx
    D = _data_graph(g)
    names = [n["name"] for n in g["nodes"]]
    if not names:
        return []
    S = set(rng.sample(names, rng.randint(min_size, max(min_size, min(len(names), 4)))))
    changed = True
    while changed:
        changed = False
        desc = set().union(*[nx.descendants(D, s) for s in S]) if S else set()
        anc = set().union(*[nx.ancestors(D, s) for s in S]) if S else set()
        mid = (desc & anc) - S
        if mid:
            S |= mid
            changed = True
    return [n for n in names if n in S]


def nest(rng, g, S, name, inner_bind=0.0, select_inner=False, shared_bind=0.0):
    """Wraps the nodes named in S into a nested graph used as the single node `name`."""
    import copy
    g = copy.deepcopy(g)
    inner_nodes = [n for n in g["nodes"] if n["name"] in S]
    outer_nodes = [n for n in g["nodes"] if n["name"] not in S]
    inner = {"nodes": inner_nodes, "bound": {}, "entrypoints": None, "selected": None, "name": name + "_g"}
    # bindings of names used only inside the group may move onto the inner graph
    used_outside = {p for n in outer_nodes for p in iface(n)[0]}
    used_inside = {p for n in inner_nodes for p in iface(n)[0]}
    for k in list(g.get("bound", {})):
        # (shared_bind: the name is ALSO consumed by a node outside the group - the enclosing graph lists nested bindings among its
        #  own, so the outside consumer gets the value exactly as it does from the flat graph's binding)
        has_default = any(k in n.get("defaults", {}) for n in g["nodes"] if n["kind"] != "graph")
        shared = k in used_outside
        if k in used_inside and (not shared or (not has_default and rng.random() < shared_bind)) and (select_inner or rng.random() < inner_bind):
            if not select_inner and not shared and rng.random() < 0.3:
                # bound on the inner graph AND (with another value) on the enclosing graph: the outer binding wins,
                # exactly as flat.bind(k=inner_v).bind(k=outer_v) would
                inner["bound"][k] = g["bound"][k] + 1000
            else:
                inner["bound"][k] = g["bound"].pop(k)
    if select_inner:
        inner_outs = [o for n in inner_nodes for o in iface(n)[1]]
        needed = [o for o in inner_outs if o in used_outside]
        extra = [o for o in inner_outs if o not in needed and rng.random() < 0.5]
        sel = needed + extra
        if sel and len(sel) < len(inner_outs):
            inner["selected"] = sel
    gn = {"name": name, "kind": "graph", "graph": inner, "inputs": [], "outputs": [], "in_hist": [], "out_hist": []}
    pos = min([i for i, n in enumerate(g["nodes"]) if n["name"] in S] or [0])
    new_nodes = [n for n in g["nodes"] if n["name"] not in S]
    new_nodes.insert(min(pos, len(new_nodes)), gn)
    g["nodes"] = new_nodes
    return g


def via_renames(rng, g, p=0.3):
    """Marks some function nodes as derived by with_inputs from a function written with OTHER parameter names (a permutation of
    the current names, or fresh ones), the original node object having been used (touched) first or not.  The program's meaning
    is unchanged: only the way the node object came to be differs."""
    for n in g["nodes"]:
        if n["kind"] == "graph":
            via_renames(rng, n["graph"], p)
        elif n["kind"] == "func" and n["inputs"] and rng.random() < p:
            cur = list(n["inputs"])
            if len(cur) >= 2 and rng.random() < 0.6:
                orig = cur[:]
                while orig == cur:
                    rng.shuffle(orig)
            else:
                orig = [f"p{i}_{n['name']}" if rng.random() < 0.7 else c for i, c in enumerate(cur)]
            n["via_rename"] = {"orig": orig, "touch": rng.random() < 0.6}
            if rng.random() < 0.4:
                # ... through an intermediate naming that is itself used (executed) before the second rename; the intermediate names
                # are a permutation of the current ones when possible (a swap done in two steps), else fresh
                mid = cur[:]
                if len(mid) >= 2:
                    while mid == cur:
                        rng.shuffle(mid)
                else:
                    mid = [f"m{i}_{n['name']}" for i, _c in enumerate(cur)]
                n["via_rename"]["mid"] = mid
    return g
