"""Shared machinery for every property check (see DESIGN.md sections 2 and 4).

  * one PRNG per run, derived from VERIF_SEED
  * Coq build + proof-obligation accounting (theorems in coq/props/Cxx.v, Print Assumptions)
  * CoqBatch: the correspondence / oracle channel -- Python writes Coq expressions that call the
    model's and the spec's Gallina definitions next to literals observed on the real
    implementation; coqc evaluates them with vm_compute and reports the indices that differ
  * evidence, replay files, known findings, exit codes
"""
from __future__ import annotations

import hashlib
import json
import os
import random
import re
import subprocess
import sys
import time
from concurrent.futures import ThreadPoolExecutor
from pathlib import Path

VERIF = Path(__file__).resolve().parent.parent
REPO = Path(os.environ.get("HG_REPO", "/repo"))
COQ = VERIF / "coq"
BUILD = VERIF / "build"
EVIDENCE = VERIF / "evidence"
REPLAYS = VERIF / "replays"
CORPUS = VERIF / "corpus"

FORBIDDEN = re.compile(
    r"\b(Admitted|admit|Axiom|Axioms|Parameter|Parameters|Conjecture|Conjectures|Abort All|"
    r"Unset\s+Guard\s+Checking|Unset\s+Positivity\s+Checking|Unset\s+Universe\s+Checking|"
    r"bypass_check|Admit\s+Obligations|native_compute|type-in-type|impredicative-set)\b"
)

ALLOWED_AXIOMS: set[str] = set()  # every theorem is expected to be closed; see DESIGN.md section 7


# --------------------------------------------------------------------------- names


class Names:
    """Bijection Python string <-> Coq positive (names are `positive` in the model)."""

    def __init__(self):
        self.fwd: dict[str, int] = {}
        self.bwd: dict[int, str] = {}

    def __call__(self, s: str) -> int:
        if s not in self.fwd:
            n = len(self.fwd) + 1
            self.fwd[s] = n
            self.bwd[n] = s
        return self.fwd[s]


# --------------------------------------------------------------------------- Coq literals


def c_pos(n: int) -> str:
    return f"{n}%positive"


def c_nat(n: int) -> str:
    return f"{n}%nat"


def c_Z(n: int) -> str:
    return f"({n})%Z"


def c_bool(b: bool) -> str:
    return "true" if b else "false"


def c_list(items, f=str) -> str:
    return "[" + "; ".join(f(x) for x in items) + "]"


def c_pair(a: str, b: str) -> str:
    return f"({a}, {b})"


def c_opt(x, f=str) -> str:
    return "None" if x is None else f"(Some {f(x)})"


def c_names(names_obj: Names, strs) -> str:
    return c_list([c_pos(names_obj(s)) for s in strs])


# --------------------------------------------------------------------------- Coq build / proofs


def sh(cmd, timeout, cwd=None, env=None):
    try:
        p = subprocess.run(cmd, shell=isinstance(cmd, str), cwd=cwd, env=env, capture_output=True, text=True, timeout=timeout)
        return p.returncode, p.stdout, p.stderr
    except subprocess.TimeoutExpired as e:
        return 124, (e.stdout or b"").decode() if isinstance(e.stdout, bytes) else (e.stdout or ""), "TIMEOUT"


def coq_sources():
    return sorted(list((COQ / "theories").glob("*.v")) + list((COQ / "props").glob("*.v")))


def grep_gate() -> list[str]:
    """No Admitted/admit/Axiom/Parameter/... anywhere in the development (comments stripped)."""
    bad = []
    for f in coq_sources():
        txt = f.read_text()
        txt = strip_coq_comments(txt)
        for m in FORBIDDEN.finditer(txt):
            bad.append(f"{f.relative_to(VERIF)}: {m.group(0)}")
    return bad


def strip_coq_comments(txt: str) -> str:
    out = []
    depth = 0
    i = 0
    while i < len(txt):
        if txt.startswith("(*", i):
            depth += 1
            i += 2
        elif txt.startswith("*)", i) and depth > 0:
            depth -= 1
            i += 2
        else:
            if depth == 0:
                out.append(txt[i])
            i += 1
    return "".join(out)


def build_coq(timeout=1500) -> tuple[bool, str]:
    """Full .vo build of the whole development (incremental; never -vos)."""
    if not (COQ / "Makefile").exists() or (COQ / "Makefile").stat().st_mtime < (COQ / "_CoqProject").stat().st_mtime:
        rc, out, err = sh("coq_makefile -f _CoqProject -o Makefile", 60, cwd=COQ)
        if rc != 0:
            return False, out + err
    rc, out, err = sh("make -j16", timeout, cwd=COQ)
    return rc == 0, (out + err)[-4000:]


THEOREM_RE = re.compile(r"^\s*(Theorem|Corollary)\s+([A-Za-z0-9_']+)", re.M)


def proof_obligations(prop_id: str, timeout=600) -> dict:
    """Compile coq/props/<id>.v on its own, capture Print Assumptions, count theorems."""
    src = COQ / "props" / f"{prop_id}.v"
    res = {"file": str(src.relative_to(VERIF)), "theorems": [], "obligations": 0, "discharged": 0, "axioms": [], "ok": False, "log": ""}
    if not src.exists():
        res["log"] = "no props file"
        return res
    txt = strip_coq_comments(src.read_text())
    theorems = [m.group(2) for m in THEOREM_RE.finditer(txt)]
    res["theorems"] = theorems
    res["obligations"] = len(theorems)
    n_print = len(re.findall(r"Print\s+Assumptions", txt))
    rc, out, err = sh(
        ["coqc", "-Q", "theories", "HG", "-Q", "props", "HGP", "-w", "-notation-overridden", str(src.relative_to(COQ))],
        timeout,
        cwd=COQ,
    )
    res["log"] = (out + err)[-3000:]
    if rc != 0:
        return res
    closed = out.count("Closed under the global context")
    axioms = []
    # "Axioms:\n name : type" blocks
    for blk in re.findall(r"Axioms:\n((?:.+\n?)+?)(?:\n|$)", out):
        for line in blk.splitlines():
            m = re.match(r"^([A-Za-z0-9_.']+)\s*:", line)
            if m:
                axioms.append(m.group(1))
    res["axioms"] = sorted(set(axioms))
    unexpected = [a for a in res["axioms"] if a not in ALLOWED_AXIOMS]
    res["discharged"] = len(theorems) if (closed + (0 if not axioms else out.count("Axioms:")) >= n_print and not unexpected and n_print >= len(theorems)) else 0
    res["ok"] = res["discharged"] == res["obligations"] and res["obligations"] > 0
    if n_print < len(theorems):
        res["log"] += f"\nonly {n_print} Print Assumptions for {len(theorems)} theorems"
    if unexpected:
        res["log"] += f"\nunexpected axioms: {unexpected}"
    return res


# --------------------------------------------------------------------------- CoqBatch


class CoqBatch:
    """Collects boolean checks `eq_fn model_expr real_literal` and evaluates them in Coq.

    Every check carries (case index, code).  Codes < 100 compare the implementation with the
    SPEC (property oracle); codes >= 100 compare it with the MODEL (correspondence).
    Per-case definitions (add_def) may be referenced in expressions as $name.
    """

    def __init__(self, name: str, imports: list[str], shard=300, preamble: str = "", extra_imports: str = "", detail_limit=30):
        self.detail_limit = detail_limit
        self.name = name
        self.imports = imports
        self.shard = shard
        self.preamble = preamble
        self.extra_imports = extra_imports
        self.checks: list[tuple[int, int, str, str, str]] = []
        self.defs: dict[int, list[tuple[str, str]]] = {}

    def add_def(self, case: int, name: str, term: str, ty: str | None = None):
        self.defs.setdefault(case, []).append((name, term if ty is None else f"({term}) : {ty}"))

    def add(self, case: int, code: int, eq_fn: str, model_expr: str, real_lit: str):
        self.checks.append((case, code, eq_fn, model_expr, real_lit))

    def __len__(self):
        return len(self.checks)

    def _header(self) -> str:
        h = "From HG Require Import " + " ".join(self.imports) + ".\n" + self.extra_imports + "\n"
        h += "Set Printing Width 1000000.\nSet Printing Depth 1000000.\n"
        h += self.preamble + "\n"
        return h

    def _subst(self, case: int, expr: str) -> str:
        for name, _ in sorted(self.defs.get(case, []), key=lambda t: -len(t[0])):
            expr = expr.replace("$" + name, f"d{case}_{name}")
        return expr

    def _defs_text(self, cases) -> str:
        out = []
        for c in cases:
            for name, term in self.defs.get(c, []):
                t = self._subst(c, term)
                if ") : " in t and t.startswith("("):
                    body, ty = t.rsplit(") : ", 1)
                    out.append(f"Definition d{c}_{name} : {ty} := {body[1:]}.")
                else:
                    out.append(f"Definition d{c}_{name} := {t}.")
        return "\n".join(out) + "\n"

    def _run_file(self, path: Path, timeout: int):
        rc, out, err = sh(
            ["coqc", "-Q", str(COQ / "theories"), "HG", "-w", "-notation-overridden", str(path)], timeout, cwd=path.parent
        )
        return rc, out, err

    def run(self, timeout=1200) -> dict:
        """Returns {'failed': [(case, code, model_value_text, real_lit, model_expr)], 'n': int, 'error': str|None}."""
        d = BUILD / "cases" / self.name
        d.mkdir(parents=True, exist_ok=True)
        for old in d.glob("*"):
            old.unlink()
        # shards are made of whole cases
        shards, cur, cur_cases = [], [], set()
        for chk in self.checks:
            if len(cur) >= self.shard and chk[0] not in cur_cases:
                shards.append(cur)
                cur, cur_cases = [], set()
            cur.append(chk)
            cur_cases.add(chk[0])
        if cur:
            shards.append(cur)
        files = []
        for si, sh_checks in enumerate(shards):
            lines = [self._header()]
            lines.append(self._defs_text(list(dict.fromkeys(c[0] for c in sh_checks))))
            lines.append("Definition checks : list (nat * bool) := [")
            body = []
            for j, (case, code, eq_fn, mexp, rlit) in enumerate(sh_checks):
                body.append(f"  ({j}%nat, {self._subst(case, eq_fn)} ({self._subst(case, mexp)}) ({self._subst(case, rlit)}))")
            lines.append(";\n".join(body))
            lines.append("].")
            lines.append("Eval vm_compute in (map fst (List.filter (fun x => negb (snd x)) checks)).")
            p = d / f"s{si}.v"
            p.write_text("\n".join(lines) + "\n")
            files.append(p)
        failed = []
        error = None
        with ThreadPoolExecutor(max_workers=14) as ex:
            results = list(ex.map(lambda p: self._run_file(p, timeout), files))
        for si, (rc, out, err) in enumerate(results):
            if rc != 0:
                error = f"coqc failed on {files[si]}: {(out + err)[-1500:]}"
                continue
            flat = " ".join(out.split())
            m = re.search(r"= \[(.*?)\]\s*: list nat", flat)
            if not m:
                error = f"unparsable coqc output for {files[si]}: {flat[-500:]}"
                continue
            idxs = [int(x.replace("%nat", "")) for x in m.group(1).split(";") if x.strip()]
            for j in idxs:
                failed.append(shards[si][j])
        # detail pass: print the model's value for failing checks
        detailed = []
        if failed:
            head = failed[: self.detail_limit]
            chunks = [head[k:k + 40] for k in range(0, len(head), 40)]
            dfiles = []
            for ci, chunk in enumerate(chunks):
                lines = [self._header(), self._defs_text(list(dict.fromkeys(c[0] for c in chunk)))]
                for k, (case, code, eq_fn, mexp, rlit) in enumerate(chunk):
                    lines.append(f"Eval vm_compute in ({self._subst(case, mexp)}).")
                p = d / ("detail.v" if ci == 0 else f"detail{ci}.v")
                p.write_text("\n".join(lines) + "\n")
                dfiles.append(p)
            with ThreadPoolExecutor(max_workers=14) as ex:
                dres = list(ex.map(lambda p: self._run_file(p, timeout), dfiles))
            vals = []
            for chunk, (rc, out, err) in zip(chunks, dres):
                got = [" ".join(v.split()) for v in re.split(r"(?m)^\s*=", out)[1:]] if rc == 0 else []
                vals.extend((got + ["?"] * len(chunk))[: len(chunk)])
            for k, chk in enumerate(failed):
                mv = vals[k][:1500] if k < len(vals) else "?"
                detailed.append((chk[0], chk[1], mv, chk[4][:1500], chk[3][:600]))
        return {"failed": detailed, "n": len(self.checks), "error": error}


# --------------------------------------------------------------------------- findings


def load_findings() -> dict:
    p = VERIF / "known_findings.json"
    if not p.exists():
        return {"findings": [], "fixed": []}
    return json.loads(p.read_text())


# --------------------------------------------------------------------------- context + driver


class Ctx:
    def __init__(self, prop_id: str, tier: str, seed: int):
        self.prop_id = prop_id
        self.tier = tier
        self.seed = seed
        self.rng = random.Random((seed * 1000003) ^ int(hashlib.sha256(prop_id.encode()).hexdigest()[:8], 16))
        self.t0 = time.time()
        self.violations: list[dict] = []  # {kind: oracle|correspondence|proof|harness, what, case, ...}
        self.known_hits: dict[str, int] = {}
        self.coverage: dict = {}
        self.assumptions: list[str] = []
        self.findings = [f for f in load_findings().get("findings", []) if f.get("property") == prop_id]

    def quick(self) -> bool:
        return self.tier == "quick"

    def n(self, quick: int, thorough: int) -> int:
        return quick if self.tier == "quick" else thorough

    def violation(self, kind: str, what: str, case=None, **extra):
        if kind in ("oracle", "correspondence") and self.findings:
            from harness import findings as _f
            fid = _f.classify(self, case, what, extra.get("observed"))
            if fid is not None and kind == "oracle":
                self.known(fid)
                return
        self.violations.append({"kind": kind, "what": what, "case": case, **extra})

    def known(self, finding_id: str):
        self.known_hits[finding_id] = self.known_hits.get(finding_id, 0) + 1


def write_replay(ctx: Ctx, v: dict) -> Path:
    REPLAYS.mkdir(exist_ok=True)
    blob = json.dumps(v, sort_keys=True, default=str)
    h = hashlib.sha256(blob.encode()).hexdigest()[:10]
    p = REPLAYS / f"{ctx.prop_id}-{h}.json"
    p.write_text(json.dumps({"property": ctx.prop_id, "seed": ctx.seed, "tier": ctx.tier, **v}, indent=1, default=str))
    return p


def finish(ctx: Ctx, proofs: dict, level: str, trusted_base: list[str]) -> int:
    """Classify, print VIOLATION / KNOWN-FINDING lines, write evidence, return exit code."""
    wall = time.time() - ctx.t0
    out_lines = []
    # known findings first
    for f in ctx.findings:
        if ctx.known_hits.get(f["id"], 0) > 0:
            out_lines.append(f"KNOWN-FINDING: property={ctx.prop_id} {f['id']}: {f['what']} (matched {ctx.known_hits[f['id']]} case(s))")
    # order: oracle violations are replayable failures on the real code
    oracle = [v for v in ctx.violations if v["kind"] == "oracle"]
    others = [v for v in ctx.violations if v["kind"] != "oracle"]
    exit_code = 0
    if oracle:
        # smallest case first
        oracle.sort(key=lambda v: len(json.dumps(v.get("case"), default=str)))
        p = write_replay(ctx, oracle[0])
        out_lines.append(f"VIOLATION property={ctx.prop_id} replay={p}")
        exit_code = 1
    elif others:
        v = others[0]
        p = write_replay(ctx, {**v, "note": "proof or correspondence no longer checks; targeted search found no input on which the property itself fails"})
        out_lines.append(f"VIOLATION property={ctx.prop_id} replay={p} no-failing-input-found")
        exit_code = 1
    cov = dict(ctx.coverage)
    cov.setdefault("obligations", proofs.get("obligations", 0))
    cov.setdefault("discharged", proofs.get("discharged", 0))
    cov.setdefault("checker_cmd", f"cd coq && make -j16 && coqc -Q theories HG -Q props HGP {proofs.get('file', '')}")
    cov.setdefault("trusted_base", trusted_base + [f"Print Assumptions: {('axioms ' + ', '.join(proofs['axioms'])) if proofs.get('axioms') else 'Closed under the global context for every theorem'}"])
    cov["theorems"] = proofs.get("theorems", [])
    cov["known_finding_hits"] = ctx.known_hits
    ev = {
        "property_id": ctx.prop_id,
        "tier": ctx.tier,
        "seed": ctx.seed,
        "level": level,
        "coverage": cov,
        "assumptions": ctx.assumptions,
        "wall_s": round(wall, 2),
        "violations": len(ctx.violations),
    }
    EVIDENCE.mkdir(exist_ok=True)
    (EVIDENCE / f"{ctx.prop_id}.json").write_text(json.dumps(ev, indent=1, default=str))
    for line in out_lines:
        print(line)
    if os.environ.get("VERIF_DEBUG"):
        BUILD.mkdir(exist_ok=True)
        (BUILD / f"debug_{ctx.prop_id}.json").write_text(json.dumps(ctx.violations, indent=1, default=str))
        from collections import Counter
        for w, c in Counter((v["kind"], re.sub(r"[0-9]+", "#", v["what"])[:110]) for v in ctx.violations).most_common(25):
            print("   ", c, w)
    print(f"[{ctx.prop_id}] tier={ctx.tier} seed={ctx.seed} proofs={proofs.get('discharged')}/{proofs.get('obligations')} "
          f"evaluations={cov.get('evaluations')} nontrivial={cov.get('distinct_nontrivial')} violations={len(ctx.violations)} "
          f"known={sum(ctx.known_hits.values())} wall={wall:.1f}s exit={exit_code}")
    return exit_code


def canon(obj) -> str:
    return json.dumps(obj, sort_keys=True, default=str)
