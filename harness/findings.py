"""Narrow classifiers for the defects listed in known_findings.json (committed by hand, never written at run
time).  A failure is attributed to a finding only if (a) the finding is listed for this property and (b) its matcher
recognises the failing case; anything else is reported as a new violation."""
from __future__ import annotations


def _produced(g):
    return {o for n in g["nodes"] for o in list(n.get("outputs", [])) + list(n.get("emit", []))}


def waiter_with_edge_default(case, msg, observed=None):
    """A node that has wait_for AND a default on an upstream-fed parameter (it runs once on the default; the
    ordering signal is not produced again, so the upstream value never reaches it)."""
    g = case.get("graph") if isinstance(case, dict) else None
    if not g:
        return False
    prod = _produced(g)
    return any(n.get("wait_for") and any(p in prod for p in n.get("defaults", {})) for n in g["nodes"])


MATCHERS = {f.__name__: f for f in (waiter_with_edge_default,)}


def classify(ctx, case, msg, observed=None):
    for f in ctx.findings:
        m = MATCHERS.get(f.get("matcher"))
        if m is not None and m(case, msg, observed):
            return f["id"]
    return None
