"""Narrow classifiers for the defects listed in known_findings.json (committed by hand, never written at run
time).  A failure is attributed to a finding only if (a) the finding is listed for this property and (b) its matcher
recognises the failing case; anything else is reported as a new violation."""
from __future__ import annotations


def _produced(g):
    return {o for n in g["nodes"] for o in list(n.get("outputs", [])) + list(n.get("emit", []))}


def waiter_with_edge_default(case, msg, observed=None):
    """A node that has wait_for and - itself or through one of its data ancestors - depends on a parameter that has a
    signature default AND is fed by an upstream node: the defaulted node runs early on the default, the waiter consumes its
    one signal on that early value, and is never re-run when the upstream value arrives (the signal is not produced again)."""
    g = case.get("graph") if isinstance(case, dict) else None
    if not g:
        return False
    prod = _produced(g)
    producer = {}
    for n in g["nodes"]:
        for o in list(n.get("outputs", [])):
            producer.setdefault(o, n)

    def tainted(n, seen):
        if n["name"] in seen:
            return False
        seen.add(n["name"])
        if any(p in prod for p in n.get("defaults", {})):
            return True
        return any(p in producer and tainted(producer[p], seen) for p in n.get("inputs", []))

    return any(n.get("wait_for") and tainted(n, set()) for n in g["nodes"])


def ambiguous_cycle_entry(case, msg, observed=None):
    """validate_inputs raises 'Ambiguous cycle entry' although the caller supplied no more than the required inputs and
    the parameters of exactly ONE listed entry point per cycle: those values also cover another entry point of the same
    cycle (nested parameter sets, or a seed shared with another cycle's entry point)."""
    if "Ambiguous" not in (msg or ""):
        return False
    g = case.get("graph") if isinstance(case, dict) else None
    entry = (observed or {}).get("entry") if isinstance(observed, dict) else None
    run = case.get("run") if isinstance(case, dict) else None
    if not g or not entry or not run:
        return False
    from harness.props.c08 import cycle_groups
    groups = cycle_groups(g, entry)
    chosen = run.get("entry_point") or []
    if isinstance(chosen, str):
        chosen = [chosen]
    if sorted(len([e for e in grp if e in chosen]) for grp in groups) != [1] * len(groups):
        return False
    allowed = set((observed or {}).get("required", [])) | {p for e in chosen for p in entry[e]} | set(g.get("bound", {}))
    provided = set(run.get("inputs", {})) | set(g.get("bound", {}))
    if not provided <= allowed:
        return False
    for grp in groups:
        sat = {tuple(entry[e]) for e in grp if set(entry[e]) <= provided}
        if len(sat) > 1:
            return True
    return False


def empty_map_silent(case, msg, observed=None):
    """runner.map with an empty list of combinations returns before creating the dispatcher."""
    run = case.get("run") if isinstance(case, dict) else None
    if not run or run.get("map") is None or "empty input list" not in (msg or ""):
        return False
    import itertools
    over = run["map"]["over"]
    lists = [run["inputs"].get(p, []) for p in over]
    n = min(len(x) for x in lists) if run["map"].get("mode", "zip") == "zip" else len(list(itertools.product(*lists)))
    return n == 0


def interrupt_handler_wrapped(case, msg, observed=None):
    """F-c: the function that raised is an InterruptNode's handler; its exception is surfaced wrapped in a RuntimeError
    (the original as __cause__)."""
    g = case.get("graph") if isinstance(case, dict) else None
    if not g or not ("instead of the exception the node raised" in (msg or "") or "is not the object the node function raised" in (msg or "")):
        return False
    failing = [n for n in g["nodes"] if n.get("fn", [None])[0] == "raise"]
    rep = (observed or {}).get("error_repr") or msg or ""
    return bool(failing) and all(n["kind"] == "interrupt" for n in failing) and "RuntimeError" in rep and "Handler for InterruptNode" in rep


def interrupt_with_edge_default(case, msg, observed=None):
    """F-f: an interrupt has a signature default on a parameter that an upstream node feeds: it runs (and pauses) early on
    the default and re-executes through its handler when the upstream value arrives, so the answered run pauses again."""
    g = case.get("graph") if isinstance(case, dict) else None
    if not g:
        return False
    produced = _produced(g)
    return any(n["kind"] == "interrupt" and any(p in produced for p in n.get("defaults", {})) for n in g["nodes"])


def bound_output_name(case, msg, observed=None):
    """F-g: the graph binds a name that one of its own nodes produces; the reported spec ignores that the producer is then
    bypassed (its inputs stay 'required', yet supplying them is rejected and omitting them is accepted or rejected with the
    internal-override ValueError instead of MissingInputError)."""
    g = case.get("graph") if isinstance(case, dict) else None
    if not g or not g.get("bound"):
        return False
    if not ("yet the call is rejected" in (msg or "") or "omitted but the call was" in (msg or "")):
        return False
    return any(k in _produced(g) for k in g["bound"])


def viz_renamed_boundary(case, msg, observed=None):
    """A drawing is unfaithful only around a value that has different names inside and outside a nested graph
    (GraphNode.with_inputs / with_outputs): the same graph without those renames ('twin') draws faithfully, and every
    problem is a dependency or graph input not drawn / an edge without dependency / an edge to an undeclared DATA node."""
    if not isinstance(observed, dict) or not observed.get("renames") or not observed.get("twin_clean"):
        return False
    probs = observed.get("problems") or []
    return bool(probs) and all(p.get("code") in (3, 4, 14, 5, 15, 7) for p in probs)


def stop_iteration_async(case, msg, observed=None):
    """Under AsyncRunner a (synchronous) node function raising StopIteration surfaces as RuntimeError('coroutine raised
    StopIteration') - PEP 479: a StopIteration cannot leave a coroutine - while SyncRunner surfaces the object itself."""
    run = case.get("run") if isinstance(case, dict) else None
    if not run or not run.get("stop_iteration") or run.get("runner") != "async":
        return False
    rep = (observed or {}).get("error_repr") if isinstance(observed, dict) else None
    return "coroutine raised StopIteration" in (msg or "") or "coroutine raised StopIteration" in (rep or "")


def equal_but_distinct_default(case, msg, observed=None):
    """The chain A() -> x ; C(x=<default>) -> y ; D(y) -> z where the upstream value and the default compare equal in Python
    (1 == True, 1 == 1.0, 0 == -0.0) but are distinguishable: C runs early on the default, re-runs on A's value, the new y
    compares equal to the old one, so its version does not advance and D is never re-run."""
    if not isinstance(case, dict) or case.get("family") != "equal_distinct_default":
        return False
    return bool(case.get("equal")) and case.get("default") != case.get("upstream") and "was not re-run when y changed" in (msg or "")


def nested_interrupt_resume(case, msg, observed=None):
    """An interrupt INSIDE a nested graph pauses with response_key '<graph node>.<output>', but no run-time input reaches the
    nested run under that (or any other) key: the re-run pauses at the same interrupt again."""
    if not isinstance(case, dict) or case.get("family") != "nested_resume":
        return False
    return "/" in (case.get("node") or "") and "." in (case.get("key") or "") and "pauses at the same interrupt again" in (msg or "")


def nested_cycle_entry_union(case, msg, observed=None):
    """A cyclic graph with several entry points, nested: the enclosing graph lists the wrapper as ONE entry point whose parameters
    are the union of the inner entry points' parameters, and supplying exactly those is rejected by the INNER run as ambiguous."""
    if not isinstance(case, dict) or case.get("family") != "nested_two_entry_cycle" or "Ambiguous cycle entry" not in (msg or ""):
        return False
    inner, outer = case.get("inner_entrypoints") or {}, case.get("outer_entrypoints") or {}
    return len(inner) >= 2 and len(outer) == 1 and set(next(iter(outer.values()))) == {p for ps in inner.values() for p in ps}


def viz_shared_producer_in_container(case, msg, observed=None):
    """A drawing is unfaithful only because, of SEVERAL producers of one output name inside an expanded nested graph, just one
    is drawn feeding a consumer outside that graph (the renderer resolves 'the' internal producer of a container output):
    every problem is a dependency not drawn whose producer is such a nested node and whose consumer lies outside its graph."""
    if not isinstance(observed, dict) or not isinstance(case, dict) or not case.get("graph"):
        return False
    probs = observed.get("problems") or []
    if not probs or not all(p.get("code") in (4, 14) for p in probs):
        return False

    def level(g, path):
        for nm in path:
            nxt = next((n for n in g["nodes"] if n["name"] == nm and n["kind"] == "graph"), None)
            if nxt is None:
                return None
            g = nxt["graph"]
        return g
    def outs(n):
        if n["kind"] != "graph":
            return set(n.get("outputs", []))
        return set().union(*[outs(m) for m in n["graph"]["nodes"]]) if n["graph"]["nodes"] else set()
    for p in probs:
        a, b = p.get("a", "").split("/"), p.get("b", "").split("/")
        found = False
        # the producer is nested; some node on its path (itself or a nested graph holding it) has a sibling at its level that
        # produces one of the same names, and the consumer is not inside that node
        if len(a) < 2:
            return False                      # the producer is not inside any nested graph
        for d in range(0, len(a)):
            if b[:d + 1] == a[:d + 1]:
                continue                      # the consumer sits in the same container as this candidate
            lv = level(case["graph"], a[:d])
            if lv is None:
                break
            me = next((n for n in lv["nodes"] if n["name"] == a[d]), None)
            if me is None:
                break
            if any(n is not me and outs(me) & outs(n) for n in lv["nodes"]):
                found = True
                break
        if not found:
            return False
    return True


def mermaid_id_clash(case, msg, observed=None):
    """A Mermaid drawing declares one id twice because a node's NAME spells the id Mermaid gives a nested node
    ('w1__b' next to 'w1/b': '/' is written '__'); every problem involves one of the two clashing nodes or is the duplicate."""
    if not isinstance(observed, dict) or not isinstance(case, dict) or case.get("view") != "mermaid" or not case.get("graph"):
        return False
    probs = observed.get("problems") or []
    if not any(p.get("code") == 1 for p in probs):
        return False

    def paths(g, pre=()):
        for n in g["nodes"]:
            yield pre + (n["name"],)
            if n["kind"] == "graph":
                yield from paths(n["graph"], pre + (n["name"],))
    allp = list(paths(case["graph"]))
    spelled = {}
    for pth in allp:
        spelled.setdefault("__".join(pth), []).append("/".join(pth))
    clashing = {x for v in spelled.values() if len(v) > 1 for x in v}
    if not clashing:
        return False
    def touches(x):
        return bool(x) and any(x == c or x.startswith(c + "/") for c in clashing)
    return all(p.get("code") == 1 or p.get("code") == 5 or touches(p.get("a")) or touches(p.get("b")) for p in probs)


def equal_value_signal(case, msg, observed=None):
    """A gate (or node) that waits for a DATA output whose producer returns an EQUAL value on every pass: the name's version
    only advances when the value changes, so the later productions are invisible to the waiter and the loop stalls."""
    if not isinstance(case, dict) or case.get("family") != "value_signal":
        return False
    return bool(case.get("constant_status")) and "was not followed by a run of the waiter" in (msg or "")


def self_first_body_overrun(case, msg, observed=None):
    """A loop whose gate is synchronised (wait_for) on the last body node's signal and whose target - the first body node -
    consumes its own output, with at least one pass-through stage between it and the emitting node: until the gate has decided for the first time
    its target is default-open and stale by its own output, so it re-fires every superstep (stages + 1 executions); visible
    when the bound is below that number."""
    if not isinstance(case, dict) or case.get("family") != "self_first_body":
        return False
    return case.get("stages", 0) >= 1 and case.get("limit", 99) <= case.get("stages", 0) and "extra executions before the gate's first decision" in (msg or "")


MATCHERS = {f.__name__: f for f in (nested_cycle_entry_union, self_first_body_overrun, equal_value_signal, mermaid_id_clash, viz_shared_producer_in_container, nested_interrupt_resume, equal_but_distinct_default, stop_iteration_async, waiter_with_edge_default, ambiguous_cycle_entry, empty_map_silent, viz_renamed_boundary, interrupt_handler_wrapped, interrupt_with_edge_default, bound_output_name)}


def classify(ctx, case, msg, observed=None):
    for f in ctx.findings:
        m = MATCHERS.get(f.get("matcher"))
        if m is not None and m(case, msg, observed):
            return f["id"]
    return None
