"""Shared pieces for the engine-level properties (C01-C04, C11, C16, C17): prepare a case on the
real implementation, and emit the MODEL / SPEC checks for it into a CoqBatch."""
from __future__ import annotations

from harness.common import CoqBatch, Names, c_list, c_pair, c_pos, c_nat, c_opt, c_bool
from harness import pdl

IMPORTS = ["Base", "Engine", "Exec", "SpecDenote", "GraphDef", "CheckLib", "EngineCheck"]


def real_input_spec(g):
    """Builds the real graph once to read its reported input spec (sync flavour)."""
    rr = pdl.RealRun()
    G = pdl.build_graph(g, rr.env(), False)
    return G


def define_case(batch: CoqBatch, i: int, N: Names, g, run):
    cg = pdl.coq_graph(N, g)
    batch.add_def(i, "g", cg["graph"], "graph")
    batch.add_def(i, "ft", cg["ftab"], "dict fexp")
    batch.add_def(i, "gt", cg["gtab"], "dict gate_cfg")
    batch.add_def(i, "pv", pdl.c_dictval(N, run["inputs"]), "dict val")
    sel = run.get("select")
    if sel is None and g.get("selected") is not None:
        sel = g["selected"]
    batch.add_def(i, "sel", c_opt(sel, lambda s: c_list([c_pos(N(x)) for x in s])), "option (list name)")
    fuel = run.get("max_iterations") or 1000
    batch.add_def(i, "fuel", c_nat(fuel))
    runner = "Sync" if run.get("runner", "sync") == "sync" else "Async"
    batch.add_def(i, "res", f"run_basic $ft $gt {runner} $fuel $g $pv $sel")


def emit_model_checks(batch: CoqBatch, i: int, N: Names, g, run, obs, log_mode="exact"):
    """codes 101.. : implementation vs MODEL on status, values, error, call log."""
    st = pdl.STATUS.get(obs["status"], 9)
    batch.add(i, 101, "Nat.eqb", "res_status $res", c_nat(st))
    batch.add(i, 102, "dictV_eqb", "res_values $res", pdl.c_dictval(N, obs["values"]))
    batch.add(i, 103, "opt_eqb Pos.eqb", "res_err $res", c_opt(obs["error"], c_pos))
    if log_mode == "exact":
        batch.add(i, 104, "list_eqb call_eqb", "concat (res_log $res)", pdl.c_log(N, obs["log"]))
    else:
        batch.add(i, 104, "calls_multiset_eqb", "concat (res_log $res)", pdl.c_log(N, obs["log"]))
