"""Shared pieces for the engine-level properties (C01-C04, C11, C16, C17): prepare a case on the
real implementation, and emit the MODEL / SPEC checks for it into a CoqBatch."""
from __future__ import annotations

from harness.common import CoqBatch, Names, c_list, c_pair, c_pos, c_nat, c_opt, c_bool
from harness import pdl

IMPORTS = ["Base", "Rename", "Engine", "Exec", "SpecDenote", "SpecWhile", "GraphDef", "InputSpec", "Nested", "CheckLib", "EngineCheck"]


def real_input_spec(g):
    """Builds the real graph once to read its reported input spec (sync flavour)."""
    rr = pdl.RealRun()
    G = pdl.build_graph(g, rr.env(), False)
    return G


def define_case(batch: CoqBatch, i: int, N: Names, g, run):
    """Definitions for one case: $ng (nested graph, innermost sub-graphs first), $g (its flat graph), $ft, $gt,
    $pv, $sel, $fuel, $res (packaged model result), $calls (complete call log, nested calls included)."""
    pdl.coq_ngraph(N, g, lambda name, term, ty: batch.add_def(i, name, term, ty), prefix="ng")
    batch.add_def(i, "g", "ng_graph $ng", "graph")
    batch.add_def(i, "ft", "match $ng with NG _ _ _ ft _ _ => ft end", "dict fexp")
    batch.add_def(i, "gt", "match $ng with NG _ _ _ _ gt _ => gt end", "dict gate_cfg")
    batch.add_def(i, "pv", pdl.c_dictval(N, run["inputs"]), "dict val")
    sel = run.get("select")
    override = "None"
    if sel is not None:
        override = "(Some None)" if sel == "**" else f"(Some (Some {c_list([c_pos(N(x)) for x in sel])}))"
    eff = sel if sel is not None else g.get("selected")
    if eff == "**":
        eff = None
    batch.add_def(i, "sel", c_opt(eff, lambda s: c_list([c_pos(N(x)) for x in s])), "option (list name)")
    fuel = run.get("max_iterations") if run.get("max_iterations") is not None else 1000
    batch.add_def(i, "fuel", c_nat(fuel))
    runner = "Sync" if run.get("runner", "sync") == "sync" else "Async"
    d = pdl.graph_depth(g) + 1
    batch.add_def(i, "res", f"run_ng {d} {runner} $fuel $ng $pv {override}", "result")
    batch.add_def(i, "calls", f"calls_ng {d} {runner} $fuel $ng $pv", "list call")


def emit_model_checks(batch: CoqBatch, i: int, N: Names, g, run, obs, log_mode="exact"):
    """codes 101.. : implementation vs MODEL on status, values, error, call log."""
    st = pdl.STATUS.get(obs["status"], 9)
    batch.add(i, 101, "Nat.eqb", "res_status $res", c_nat(st))
    batch.add(i, 102, "dictV_eqb", "res_values $res", pdl.c_dictval(N, obs["values"]))
    batch.add(i, 103, "opt_eqb Pos.eqb", "res_err $res", c_opt(obs["error"], c_pos))
    # interrupts: the model logs every execution of the node, the implementation's log only actual handler calls
    ints = interrupt_names(g)
    calls = "$calls"
    real_log = obs["log"]
    if ints:
        calls = f"List.filter (fun c : call => negb (pos_in (fst c) {c_list([c_pos(N(x)) for x in ints])})) $calls"
        real_log = [c for c in real_log if c[0] not in ints]
    if log_mode == "exact":
        batch.add(i, 104, "list_eqb call_eqb", calls, pdl.c_log(N, real_log))
    else:
        batch.add(i, 104, "calls_multiset_eqb", calls, pdl.c_log(N, real_log))


def interrupt_names(g):
    out = []
    for n in g["nodes"]:
        if n["kind"] == "interrupt":
            out.append(n["name"])
        elif n["kind"] == "graph":
            out += interrupt_names(n["graph"])
    return out


def run_cases(ctx, name, cases, extra=None, shard=160, schedules=None, want_model=None, imports=None):
    """cases: list of (g, run_cfg).  For each: run on the implementation, emit MODEL checks, then
    call extra(i, g, run_cfg, obs, batch, N) -> list of oracle failure strings (Python-level oracle);
    `extra` may also add SPEC checks (codes < 100) to the batch.  Returns (obs_all, coq result)."""
    N = Names()
    batch = CoqBatch(name, IMPORTS + list(imports or []), shard=shard)
    obs_all = {}
    for i, (g, run_cfg) in enumerate(cases):
        rank = None
        if run_cfg.get("runner") == "async":
            seed = run_cfg.get("sched_seed", 0)
            import random as _r
            rr = _r.Random(seed)
            perm = {}
            rank = lambda name, perm=perm, rr=rr: perm.setdefault(name, rr.random())  # noqa: E731
            if run_cfg.get("fresh_rank"):
                rank = lambda name, rr=rr: rr.random()  # noqa: E731  (a new priority at every arrival)
        try:
            obs = pdl.run_real(g, run_cfg, rank=rank)
        except Exception as e:  # noqa: BLE001
            import traceback
            ctx.violation("harness", f"real-side driver crashed: {type(e).__name__}: {e}", case={"graph": g, "run": run_cfg}, trace=traceback.format_exc()[-1500:])
            continue
        obs_all[i] = obs
        if obs["status"] == "raised" and run_cfg.get("allow_raise"):
            define_case(batch, i, N, g, run_cfg)
            if extra is not None:
                for msg in extra(i, g, run_cfg, obs, batch, N) or []:
                    ctx.violation("oracle", msg, case={"graph": g, "run": run_cfg}, observed=obs)
            continue
        if obs["status"] == "raised":
            if run_cfg.get("expect_raise"):
                continue
            ctx.violation("oracle", f"run raised instead of returning a result: {obs['error_repr']}", case={"graph": g, "run": run_cfg})
            continue
        define_case(batch, i, N, g, run_cfg)
        if want_model is None or want_model(g, run_cfg, obs):
            emit_model_checks(batch, i, N, g, run_cfg, obs, log_mode="exact" if run_cfg.get("runner", "sync") == "sync" else "multiset")
        if extra is not None:
            for msg in extra(i, g, run_cfg, obs, batch, N) or []:
                ctx.violation("oracle", msg, case={"graph": g, "run": run_cfg}, observed=obs)
    res = batch.run()
    if res["error"]:
        ctx.violation("harness", res["error"])
    for (ci, code, mv, real, mexp) in res["failed"]:
        kind = "oracle" if code < 100 else "correspondence"
        g, run_cfg = cases[ci]
        ctx.violation(kind, f"check {code}: implementation {real} vs {'spec' if code < 100 else 'model'} {mv}",
                      case={"graph": g, "run": run_cfg}, observed=obs_all.get(ci), expr=mexp)
    return obs_all, res


def program_key(g, run_cfg):
    from harness.common import canon
    return canon({"n": g["nodes"], "b": g.get("bound"), "e": g.get("entrypoints"), "s": g.get("selected"),
                  "in": run_cfg["inputs"], "r": run_cfg.get("runner"), "mi": run_cfg.get("max_iterations"), "sel": run_cfg.get("select")})


def run_model_programs(ctx, prop, imports, items):
    """The concrete model programs that the run-level family theorems speak about (Samples.gated, InterruptRun.chain, ...), evaluated
    in Coq and compared with the implementation's run of the same program.  items: (case, code, eqb, model_expr, real_literal)."""
    batch = CoqBatch(prop + "m", IMPORTS + list(imports), shard=200)
    for i, (case, code, eqb, mexp, real) in enumerate(items):
        batch.add(i, code, eqb, mexp, real)
    res = batch.run()
    if res["error"]:
        ctx.violation("harness", res["error"])
    for (ci, code, mv, real, mexp) in res["failed"]:
        ctx.violation("correspondence", f"the model program of the run-level theorem and the implementation disagree: model {mv[:300]} vs implementation {real[:300]}",
                      case=items[ci][0], expr=mexp[:300])
    return res["n"]
