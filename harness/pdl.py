"""Program description language (PDL): one JSON-able description of a graph + run, turned into
  (a) real hypergraph objects through the public API (build_real) and
  (b) Coq terms for the model of coq/theories/Engine.v / Exec.v (coq_graph).
Node functions are terms of the expression language of Exec.v (sym / add / const / raise /
raise_if_ge / glt / gtable), generated here as Python source with keyword-only parameters.
"""
from __future__ import annotations

import asyncio
import warnings

from harness.common import Names, c_list, c_pair, c_pos, c_Z, c_nat, c_bool, c_opt

# --------------------------------------------------------------------------- values


def c_val(N: Names, v) -> str:
    if isinstance(v, bool):
        raise ValueError("bool values are not modelled")
    if isinstance(v, int):
        return f"(VInt {c_Z(v)})"
    if isinstance(v, str):
        return f"(VStr {c_pos(N(v))})"
    if v is None:
        return "VNone"
    if isinstance(v, tuple):
        return f"(VTup {c_list([c_val(N, x) for x in v])})"
    if isinstance(v, list):
        return f"(VList {c_list([c_val(N, x) for x in v])})"
    from hypergraph.nodes.base import _EMIT_SENTINEL

    if v is _EMIT_SENTINEL:
        return "VSentinel"
    raise ValueError(f"unmodelled value {v!r}")


def c_dictval(N: Names, d: dict) -> str:
    return c_list([c_pair(c_pos(N(k)), c_val(N, v)) for k, v in d.items()])


def c_target(N: Names, t) -> str:
    return "TEnd" if t == "END" else f"(TNode {c_pos(N(t))})"


def c_dret(N: Names, d) -> str:
    if d is None:
        return "RNone"
    if d == "END":
        return "REnd"
    if isinstance(d, list):
        return f"(RMany {c_list([c_target(N, t) for t in d])})"
    return f"(ROne {c_pos(N(d))})"


def c_fexp(N: Names, f) -> str:
    op = f[0]
    if op == "sym":
        return f"(FSym {c_pos(N(f[1]))})"
    if op == "add":
        return f"(FAdd {c_Z(f[1])})"
    if op == "const":
        return f"(FConst {c_val(N, f[1])})"
    if op == "genconst":
        # a plain function RETURNING a generator object: the value of the node is the list of what it yields
        return f"(FConst {c_val(N, list(f[1]))})"
    if op == "raise":
        return f"(FRaise {c_pos(f[1])})"
    if op == "raise_if_ge":
        return f"(FRaiseIfGe {c_Z(f[1])} {c_pos(f[2])} {c_fexp(N, f[3])})"
    if op == "glt":
        return f"(GLt {c_Z(f[1])})"
    if op == "gtable":
        return f"(GTable {c_list([c_pair(c_Z(k), c_dret(N, d)) for k, d in f[1]])} {c_dret(N, f[2])})"
    raise ValueError(op)


# --------------------------------------------------------------------------- model side


def node_outputs(n) -> list[str]:
    return list(n.get("outputs", [])) + list(n.get("emit", []))


def c_node(N: Names, n, fn_id: int) -> str:
    kind = n["kind"]
    if kind == "func":
        k = "KFunc"
    elif kind in ("ifelse", "route"):
        tg = [n["when_true"], n["when_false"]] if kind == "ifelse" else n["targets"]
        k = f"(KGate (mk_gate {c_list([c_target(N, t) for t in tg])} {c_bool(n.get('default_open', True))}))"
    elif kind == "interrupt":
        k = "KInterrupt"
    else:
        k = "KGraph"
    names = lambda l: c_list([c_pos(N(x)) for x in l])  # noqa: E731
    dflt = n.get("defaults", {})
    return (f"(mk_node {c_pos(N(n['name']))} {names(n['inputs'])} {names(node_outputs(n))} {c_nat(len(n.get('outputs', [])))} "
            f"{names(n.get('wait_for', []))} {names(list(dflt))} {c_dictval(N, dflt)} {k} {c_pos(fn_id)})")


def c_gcfg(N: Names, n) -> str:
    if n["kind"] == "ifelse":
        return f"(mk_gcfg {c_target(N, n['when_true'])} {c_target(N, n['when_false'])} None false true)"
    fb = n.get("fallback")
    return f"(mk_gcfg TEnd TEnd {c_opt(fb, lambda t: c_target(N, t))} {c_bool(n.get('multi', False))} false)"


def c_batchd(N: Names, b) -> str:
    return c_list([c_pair(c_pos(N(o)), c_pos(N(n))) for o, n in b.items()])


def c_hist(N: Names, h) -> str:
    return c_list([c_batchd(N, b) for b in h])


def graph_depth(g) -> int:
    return 1 + max([graph_depth(n["graph"]) for n in g["nodes"] if n["kind"] == "graph"] or [0])


def coq_ngraph(N: Names, g, add_def, prefix="ng") -> str:
    """Emits (through add_def(name, term, type)) the definitions of every nested graph, innermost first,
    and returns the name of the definition of this graph (to be referenced as $name)."""
    nodes, ftab, gtab, subs = [], [], [], []
    k = 0
    for i, n in enumerate(g["nodes"]):
        fid = i + 1
        if n["kind"] == "graph":
            k += 1
            sub_name = coq_ngraph(N, n["graph"], add_def, prefix=f"{prefix}_{k}")
            hin, hout = c_hist(N, n.get("in_hist", [])), c_hist(N, n.get("out_hist", []))
            nodes.append(f"(graphnode_of {c_pos(N(n['name']))} ${sub_name} {hin} {hout})")
            if n.get("map_over"):
                mc = (f"(Some (mk_mapcfg {c_list([c_pos(N(x)) for x in n['map_over']])} "
                      f"{'MProduct' if n.get('map_mode') == 'product' else 'MZip'} {c_bool(bool(n.get('map_continue')))}))")
            else:
                mc = "None"
            subs.append(f"(mk_sub {c_pos(N(n['name']))} ${sub_name} {hin} {hout} {mc})")
        else:
            nodes.append(c_node(N, n, fid))
            ftab.append(c_pair(c_pos(fid), c_fexp(N, n["fn"])))
            if n["kind"] in ("ifelse", "route"):
                gtab.append(c_pair(c_pos(N(n["name"])), c_gcfg(N, n)))
    names = lambda l: c_list([c_pos(N(x)) for x in l])  # noqa: E731
    eps = c_opt(g.get("entrypoints"), names)
    sel = c_opt(g.get("selected"), names)
    term = (f"mk_ng {c_list(nodes)} {c_dictval(N, g.get('bound', {}))} {eps} {sel} "
            f"({c_list(ftab)} : dict fexp) ({c_list(gtab)} : dict gate_cfg) {c_list(subs)}")
    add_def(prefix, term, "ngraph")
    return prefix


def coq_graph(N: Names, g) -> dict:
    """Returns Coq terms {graph, ftab, gtab} for a flat PDL graph."""
    nodes, ftab, gtab = [], [], []
    for i, n in enumerate(g["nodes"]):
        fid = i + 1
        nodes.append(c_node(N, n, fid))
        ftab.append(c_pair(c_pos(fid), c_fexp(N, n["fn"])))
        if n["kind"] in ("ifelse", "route"):
            gtab.append(c_pair(c_pos(N(n["name"])), c_gcfg(N, n)))
    eps = g.get("entrypoints")
    nodes_t = c_list(nodes)
    bound_t = c_dictval(N, g.get("bound", {}))
    if eps:
        active = f"(Some (active_from_entrypoints {nodes_t} {c_list([c_pos(N(e)) for e in eps])}))"
    else:
        active = "None"
    return {
        "graph": f"(mk_graph {nodes_t} {bound_t} {active})",
        "ftab": c_list(ftab),
        "gtab": c_list(gtab),
    }


# --------------------------------------------------------------------------- real side


class _Done(Exception):
    pass


class HgErr(Exception):
    def __init__(self, eid):
        super().__init__(f"HgErr({eid})")
        self.eid = eid


class HgStopErr(HgErr, StopIteration):
    """A StopIteration raised by a node function (a `next()` on an exhausted iterator, say)."""


class HgSilentErr(HgErr):
    """An exception without a message (raise NotImplementedError, ValueError() ...): str(e) == ''."""

    def __init__(self, eid):
        Exception.__init__(self)
        self.eid = eid


class HgFalsyErr(HgErr):
    """An exception object that is falsy (an error carrying an empty list of problems, say): still THE raised object."""

    def __len__(self):
        return 0


def err_id(e) -> int:
    """Maps an exception observed on the implementation to the model's err ids."""
    from hypergraph.exceptions import InfiniteLoopError

    if isinstance(e, HgErr):
        return e.eid
    if isinstance(e, InfiniteLoopError):
        return 2
    if isinstance(e, KeyError):
        return 1
    if isinstance(e, TypeError):
        return 3
    if isinstance(e, ValueError):
        return 4
    return 999


class Turnstile:
    """Controls the completion order of async node bodies: a body registers, then waits until the
    controller releases it; the controller always releases the waiting body with the smallest rank."""

    def __init__(self, rank, hold=False):
        self.hold = hold  # adversarial mode: release a body only once the number of open bodies has stopped growing
        self.rank = rank  # (node name, arrival count) -> sortable key
        self.waiting = []
        self.inflight = 0
        self.peak = 0
        self.task = None
        self.stop = False
        self.order = []

    async def enter(self, name):
        fut = asyncio.get_running_loop().create_future()
        self.inflight += 1
        self.peak = max(self.peak, self.inflight)
        self.waiting.append((self.rank(name), name, fut))
        try:
            await fut
        finally:
            self.inflight -= 1

    async def controller(self):
        while not self.stop:
            for _ in range(4):
                await asyncio.sleep(0)
            if self.hold:
                # keep as many bodies open as the framework allows: wait until nothing new arrives
                stable, last = 0, self.inflight
                while stable < 12 and not self.stop:
                    await asyncio.sleep(0)
                    if self.inflight == last:
                        stable += 1
                    else:
                        stable, last = 0, self.inflight
            if self.waiting:
                self.waiting.sort(key=lambda t: t[0])
                _, name, fut = self.waiting.pop(0)
                self.order.append(name)
                if not fut.done():
                    fut.set_result(None)
            else:
                await asyncio.sleep(0)


def _py(v) -> str:
    return repr(v)


def _fn_body(f, params, ndata, ind="    ") -> str:
    op = f[0]
    a = params[0] if params else None
    if op == "sym":
        args = "".join(f", {p}" for p in params)
        if ndata <= 1:
            return f"{ind}return ({f[1]!r}{args},)\n" if not params else f"{ind}return ({f[1]!r}{args})\n"
        return f"{ind}return tuple(({f[1]!r}, _j{args}) for _j in range({ndata}))\n"
    if op == "add":
        if ndata <= 1:
            return f"{ind}return {a} + {f[1]}\n"
        return f"{ind}return tuple({a} + {f[1]} + _j for _j in range({ndata}))\n"
    if op == "const":
        return f"{ind}return {_py(f[1])}\n"
    if op == "genconst":
        return f"{ind}return (_c for _c in {_py(list(f[1]))})\n"
    if op == "raise":
        return f"{ind}raise _mkerr({f[1]})\n"
    if op == "raise_if_ge":
        s = f"{ind}if isinstance({a}, int) and {a} >= {f[1]}:\n{ind}    raise _mkerr({f[2]})\n" if a else ""
        return s + _fn_body(f[3], params, ndata, ind)
    if op == "short_if_ge":
        # a multi-output function that returns too few values for some inputs (output unpacking fails after the body returned)
        s = f"{ind}if isinstance({a}, int) and {a} >= {f[1]}:\n{ind}    return ({f[1]!r},)\n" if a else ""
        return s + _fn_body(f[2], params, ndata, ind)
    if op == "glt":
        return f"{ind}return {a} < {f[1]}\n"
    if op == "gtable":
        return f"{ind}return _decode(_tbl.get({a}, _dflt)) if isinstance({a}, int) else _decode(_dflt)\n" if a else f"{ind}return _decode(_dflt)\n"
    raise ValueError(op)


def make_function(n, env, is_async=False):
    """exec-generate the node's callable (keyword-only params so defaults may sit anywhere)."""
    import hypergraph as hg

    cur = list(n["inputs"])
    # via_rename: the function is written with other parameter names (orig) and the node is derived from it by
    # with_inputs(orig -> current); the log is keyed by the current names, as the model sees them
    params = list(n["via_rename"]["orig"]) if n.get("via_rename") and n["kind"] == "func" else cur
    dflt = {params[i]: v for i, c in enumerate(cur) for k, v in n.get("defaults", {}).items() if k == c}
    sig = ", ".join(f"{p}={_py(dflt[p])}" if p in dflt else p for p in params)
    fname = "fn_" + n["name"]
    wrap = is_async and n.get("wrap_sync")
    inner_name = fname + "_inner" if wrap else fname
    head = f"{'async ' if is_async else ''}def {inner_name}({'*, ' + sig if params else ''}):\n"
    body = f"    _log.append(({n['name']!r}, dict({', '.join(f'{c}={p}' for c, p in zip(cur, params))})))\n"
    if is_async:
        body += f"    await _ts.enter({n['name']!r})\n"
    body += _fn_body(n["fn"], params, len(n.get("outputs", [])))
    if wrap:
        # a plain function returning the coroutine (what a non-async decorator around an async def produces)
        body += f"\ndef {fname}({'*, ' + sig if params else ''}):\n    return {inner_name}({', '.join(f'{p}={p}' for p in params)})\n"
    ns = dict(env)
    if n["fn"][0] == "gtable":
        ns["_tbl"] = {k: d for k, d in n["fn"][1]}
        ns["_dflt"] = n["fn"][2]

        def _decode(d):
            if d == "END":
                return hg.END
            if isinstance(d, list):
                return [hg.END if t == "END" else t for t in d]
            return d

        ns["_decode"] = _decode
    exec(head + body, ns)
    return ns[fname]


def build_node(n, env, is_async=False):
    import hypergraph as hg
    from hypergraph.nodes import FunctionNode, IfElseNode, RouteNode, InterruptNode

    kind = n["kind"]
    outs = list(n.get("outputs", []))
    emit = tuple(n.get("emit", [])) or None
    wait = tuple(n.get("wait_for", [])) or None
    tgt = lambda t: hg.END if t == "END" else t  # noqa: E731
    if kind == "func":
        f = make_function(n, env, is_async)
        out = tuple(outs) if len(outs) > 1 else (outs[0] if outs else None)
        fnode = FunctionNode(f, name=n["name"], output_name=out, emit=emit, wait_for=wait, cache=n.get("cache", False))
        vr = n.get("via_rename")
        if vr:
            if vr.get("touch"):
                _touch_node(fnode, env)
            mid = vr.get("mid")
            done = False
            if mid:
                # two renames with a USE of the once-renamed node in between (orig -> mid, execute, mid -> current)
                try:
                    step1 = fnode.with_inputs({o: m for o, m in zip(vr["orig"], mid) if o != m})
                    _touch_node(step1, env)
                    fnode = step1.with_inputs({m: c for m, c in zip(mid, n["inputs"]) if m != c})
                    done = True
                except Exception:  # noqa: BLE001  (an intermediate naming the node rejects: fall back to the single rename)
                    done = False
            if not done:
                fnode = fnode.with_inputs({o: c for o, c in zip(vr["orig"], n["inputs"]) if o != c})
        return fnode
    if kind == "ifelse":
        f = make_function(n, env, False)
        return IfElseNode(f, when_true=tgt(n["when_true"]), when_false=tgt(n["when_false"]), name=n["name"],
                          default_open=n.get("default_open", True), emit=emit, wait_for=wait, cache=n.get("cache", False))
    if kind == "route":
        f = make_function(n, env, False)
        return RouteNode(f, targets=[tgt(t) for t in n["targets"]], fallback=tgt(n["fallback"]) if n.get("fallback") else None,
                         multi_target=n.get("multi", False), name=n["name"], default_open=n.get("default_open", True),
                         emit=emit, wait_for=wait, cache=n.get("cache", False))
    if kind == "interrupt":
        # async_handler: the handler is an async function whose body takes part in the harness's scheduling like any node body
        f = make_function(n, env, bool(is_async and n.get("async_handler")))
        out = tuple(outs) if len(outs) > 1 else outs[0]
        return InterruptNode(f, name=n["name"], output_name=out, emit=emit, wait_for=wait)
    if kind == "graph":
        inner = build_graph(n["graph"], env, is_async)
        gn = inner.as_node(name=n["name"])
        touch = n.get("touch")
        for b in n.get("in_hist", []):
            if touch:
                _touch_node(gn, env)
            gn = gn.with_inputs(dict(b))
        for b in n.get("out_hist", []):
            if touch:
                _touch_node(gn, env)
            gn = gn.with_outputs(dict(b))
        if n.get("map_over"):
            gn = gn.map_over(*n["map_over"], mode=n.get("map_mode", "zip"), error_handling="continue" if n.get("map_continue") else "raise")
        # variants derived from the node and thrown away: deriving never changes the node it is called on
        for b in n.get("discarded_derivations", []):
            try:
                gn.with_inputs(dict(b))
            except Exception:  # noqa: BLE001
                pass
        return gn
    raise ValueError(kind)


def make_recorder():
    """An EventProcessor recording a canonical, JSON-able view of every event (span ids -> indices)."""
    from hypergraph.events.processor import EventProcessor

    class Recorder(EventProcessor):
        def __init__(self):
            self.events = []
            self.spans = {}
            self.shutdowns = 0

        def _sid(self, s):
            if s is None:
                return None
            return self.spans.setdefault(s, len(self.spans))

        def on_event(self, ev):
            d = {"type": type(ev).__name__, "span": self._sid(ev.span_id), "parent": self._sid(ev.parent_span_id)}
            for k in ("node_name", "graph_name", "status", "decision", "is_map", "map_size", "cached", "error_type"):
                if hasattr(ev, k):
                    v = getattr(ev, k)
                    d[k] = getattr(v, "value", v) if not isinstance(v, (list, str, int, bool, type(None))) else v
                    if k == "decision":
                        d[k] = _canon_decision(v)
            self.events.append(d)

        def shutdown(self):
            self.shutdowns += 1

    return Recorder()


def make_async_recorder():
    """The same recorder as an AsyncEventProcessor whose handler really suspends."""
    from hypergraph.events.processor import AsyncEventProcessor
    base = make_recorder()

    class ARecorder(AsyncEventProcessor):
        def __init__(self):
            self.inner = base

        @property
        def events(self):
            return self.inner.events

        @property
        def shutdowns(self):
            return self.inner.shutdowns

        async def on_event_async(self, ev):
            await asyncio.sleep(0)
            self.inner.on_event(ev)

        async def shutdown_async(self):
            await asyncio.sleep(0)
            self.inner.shutdown()

        def on_event(self, ev):
            self.inner.on_event(ev)

        def shutdown(self):
            self.inner.shutdown()

    return ARecorder()


def _canon_decision(v):
    import hypergraph as hg

    if v is hg.END or v == "END":
        return "END"
    if isinstance(v, list):
        return ["END" if (t is hg.END or t == "END") else t for t in v]
    return v


def _touch_node(gn, env=None):
    """Use a node object between derivations the way a program would: read its properties, put it into a graph and
    EXECUTE that graph once (fills every per-object cache, including the ones only an execution touches)."""
    from hypergraph import Graph, SyncRunner

    for c in gn.inputs:
        gn.has_default_for(c)
        gn.get_input_type(c)
    try:
        G = Graph([gn])
        spec = G.inputs
        vals = {x: 0 for x in spec.required}
        for ps in spec.entrypoints.values():
            for x in ps:
                vals[x] = 0
        with warnings.catch_warnings():
            warnings.simplefilter("ignore")
            SyncRunner().run(G, vals, error_handling="continue", max_iterations=8)
    except Exception:  # noqa: BLE001
        pass
    if env is not None and "_log" in env:
        env["_log"].clear()


class RealRun:
    """One execution of a PDL program on the implementation."""

    def __init__(self):
        self.log = []
        self.raised = []
        self.stop = False      # injected errors are StopIteration objects

    def env(self, ts=None):
        def _mkerr(eid):
            if self.stop:
                e = HgStopErr(eid)
            else:
                # a third of the injected errors are falsy objects, a third carry no message
                e = (HgFalsyErr, HgSilentErr, HgErr)[(eid + len(self.log)) % 3](eid)
            self.raised.append(e)
            return e

        return {"_log": self.log, "_mkerr": _mkerr, "_ts": ts}


def build_graph(g, env, is_async=False):
    from hypergraph import Graph

    nodes = [build_node(n, env, is_async) for n in g["nodes"]]
    G = Graph(nodes, name=g.get("name"))
    if g.get("explicit_edges"):
        # the same graph declared with explicit edges: every inferred data edge (with its values) and
        # every gate->target edge the user would naturally write down
        edges = []
        for u, v, d in G.nx_graph.edges(data=True):
            if d.get("edge_type") == "data":
                edges.append((u, v, list(d.get("value_names", []))))
            elif d.get("edge_type") == "ordering":
                edges.append((u, v))
        if g["explicit_edges"] == "with_gate_edges":
            for n in g["nodes"]:
                if n["kind"] in ("ifelse", "route"):
                    tg = [n["when_true"], n["when_false"]] if n["kind"] == "ifelse" else n["targets"]
                    for t in tg:
                        if t != "END" and not any(e[0] == n["name"] and e[1] == t for e in edges):
                            edges.append((n["name"], t))
        G = Graph(nodes, edges=edges, name=g.get("name"))
    if g.get("pre_use") and not is_async:
        _pre_use(G, env)
    if g.get("bound"):
        G = G.bind(**g["bound"])
    if g.get("entrypoints"):
        G = G.with_entrypoint(*g["entrypoints"])
    if g.get("selected") is not None:
        G = G.select(*g["selected"])
    return G


def _pre_use(G, env):
    """Use the base graph object the way a program would before deriving from it: read its cached
    properties and execute it once (fills every per-object cache), then forget the calls it made."""
    import warnings as _w
    from hypergraph import SyncRunner

    try:
        spec = G.inputs
        vals = {x: 0 for x in spec.required}
        for ps in spec.entrypoints.values():
            for x in ps:
                vals[x] = 0
        G.definition_hash, G.controlled_by, G.self_producers
        with _w.catch_warnings():
            _w.simplefilter("ignore")
            SyncRunner().run(G, vals, error_handling="continue", max_iterations=8)
    except Exception:  # noqa: BLE001
        pass
    env["_log"].clear()


def make_flaky_cache(fail_on):
    """An in-memory cache backend whose `fail_on`-th write raises (disk full, dropped connection, ...)."""
    from hypergraph.cache import InMemoryCache

    class FlakyCache(InMemoryCache):
        def __init__(self):
            super().__init__()
            self.writes = 0

        def set(self, key, value):
            self.writes += 1
            if fail_on is not None and self.writes == fail_on:
                raise OSError(f"cache write #{self.writes} failed")
            return super().set(key, value)

    return FlakyCache()


def _plain(v):
    """Values as the harness compares them: a generator object (a value no model value corresponds to) becomes a marker string."""
    import inspect
    if inspect.isgenerator(v):
        return "<generator object>"
    if isinstance(v, dict):
        return {k: _plain(x) for k, x in v.items()}
    if isinstance(v, list):
        return [_plain(x) for x in v]
    if isinstance(v, tuple):
        return tuple(_plain(x) for x in v)
    return v


def run_real(g, run, rank=None):
    """run = {runner: 'sync'|'async', inputs: {...}, select: None|[...], max_iterations: int|None,
              error_handling: 'raise'|'continue', max_concurrency: None|int, on_missing}
    Returns a JSON-able observation."""
    from hypergraph import SyncRunner, AsyncRunner

    rr = RealRun()
    rr.stop = bool(run.get("stop_iteration"))
    kw = {}
    rkw = {}
    if run.get("cache"):
        rkw["cache"] = make_flaky_cache(run["cache"].get("fail_on"))
    if run.get("select") is not None:
        kw["select"] = run["select"]
    if run.get("max_iterations") is not None:
        kw["max_iterations"] = run["max_iterations"]
    if run.get("on_missing"):
        kw["on_missing"] = run["on_missing"]
    kw["error_handling"] = run.get("error_handling", "continue")
    obs = {}
    rec = None
    if run.get("events"):
        rec = make_async_recorder() if (run.get("events") == "async" and run.get("runner") == "async") else make_recorder()
        kw["event_processors"] = [rec]
    with warnings.catch_warnings(record=True) as wlist:
        warnings.simplefilter("always")
        try:
            mp = run.get("map")
            if mp is not None:
                kw.pop("max_iterations", None)
                kw["map_over"] = mp["over"]
                kw["map_mode"] = mp.get("mode", "zip")
            if run.get("runner", "sync") == "sync":
                G = build_graph(g, rr.env(), False)
                if mp is not None:
                    res = SyncRunner(**rkw).map(G, dict(run["inputs"]), **kw)
                else:
                    res = SyncRunner(**rkw).run(G, dict(run["inputs"]), **kw)
            else:
                ts = Turnstile(rank or (lambda name: 0), hold=bool(run.get("hold")))

                async def go():
                    G = build_graph(g, rr.env(ts), True)
                    ts.task = asyncio.ensure_future(ts.controller())
                    try:
                        if run.get("max_concurrency") is not None:
                            kw["max_concurrency"] = run["max_concurrency"]
                        if mp is not None:
                            return await AsyncRunner(**rkw).map(G, dict(run["inputs"]), **kw)
                        return await AsyncRunner(**rkw).run(G, dict(run["inputs"]), **kw)
                    finally:
                        ts.stop = True
                        await ts.task

                if run.get("watchdog"):
                    async def guarded():
                        return await asyncio.wait_for(go(), timeout=run["watchdog"])
                    res = asyncio.run(guarded())
                else:
                    res = asyncio.run(go())
                obs["release_order"] = ts.order
                obs["peak_inflight"] = ts.peak
            if mp is not None:
                obs["status"] = "mapped"
                obs["values"] = {}
                obs["error"] = None
                obs["results"] = [{"status": r.status.value, "values": _plain(r.values), "error": None if r.error is None else err_id(r.error),
                                   "error_is_raised_object": r.error is None or not isinstance(r.error, HgErr) or any(r.error is e for e in rr.raised),
                                   "error_repr": None if r.error is None else f"{type(r.error).__name__}: {r.error}"[:160]} for r in res]
                raise _Done()
            obs["status"] = res.status.value
            obs["values"] = _plain(res.values)
            obs["error"] = None if res.error is None else err_id(res.error)
            obs["error_is_raised_object"] = res.error is None or not isinstance(res.error, HgErr) or any(res.error is e for e in rr.raised)
            obs["error_repr"] = None if res.error is None else f"{type(res.error).__name__}: {res.error}"[:200]
            if res.pause is not None:
                obs["pause"] = {"node": res.pause.node_name, "out": res.pause.output_param, "value": res.pause.value, "key": res.pause.response_key}
        except _Done:
            pass
        except Exception as e:  # noqa: BLE001
            obs["status"] = "raised"
            obs["error_class"] = type(e).__name__
            obs["error_is_raised_object"] = (not isinstance(e, HgErr)) or any(e is x for x in rr.raised)
            obs["error"] = err_id(e)
            obs["error_repr"] = f"{type(e).__name__}: {e}"[:300]
            obs["values"] = {}
    obs["log"] = [(nm, _plain(kw)) for nm, kw in rr.log]
    if rec is not None:
        obs["events"] = rec.events
        obs["shutdowns"] = rec.shutdowns
    obs["warnings"] = [str(w.message)[:120] for w in wlist]
    return obs


STATUS = {"completed": 0, "failed": 1, "paused": 2}


def c_log(N: Names, log) -> str:
    return c_list([c_pair(c_pos(N(name)), c_dictval(N, kw)) for name, kw in log])
