"""Hand-written valid graphs that run before the generated ones: the shapes on which C19 defects were found
(an unknown target next to two real ones, a second producer that only the all-producers type check sees, wait_for
under strict types, a renamed / mapped GraphNode under strict types).  The flaw injectors of c19.py are applied to
each of them like to every generated graph."""
from harness.props.c19 import fnode, gate, INT, BOOL, STR, C, U

_src = fnode("a", ["inp"], ["x"], {"inp": INT}, {"x": INT})

GRAPHS = [
    # route with two real targets (the unknown-target flaws land on a gate with >= 2 string targets)
    {"nodes": [_src, gate("r", "route", ["x"], ["b", "c"], {"x": INT}),
               fnode("b", ["x"], ["y"], {"x": INT}, {"y": INT}), fnode("c", ["x"], ["z"], {"x": INT}, {"z": INT})],
     "edges": None, "name": None, "strict": False},
    # two exclusive producers of v, strict: the consumer's type must hold for the SECOND producer too
    {"nodes": [gate("g", "ifelse", ["inp"], ["p1", "p2"], {"inp": INT}),
               fnode("p1", ["inp"], ["v"], {"inp": INT}, {"v": INT}), fnode("p2", ["inp"], ["v"], {"inp": INT}, {"v": BOOL}),
               fnode("c2", ["v"], ["w"], {"v": INT}, {"w": INT})],
     "edges": None, "name": None, "strict": True},
    # emit / wait_for under strict types
    {"nodes": [fnode("a", ["inp"], ["x"], {"inp": INT}, {"x": INT}, emit=["done"]),
               fnode("b", ["inp"], ["y"], {"inp": INT}, {"y": INT}, wait_for=["done"]),
               fnode("b2", ["inp"], ["y2"], {"inp": INT}, {"y2": INT}, wait_for=["x"])],
     "edges": None, "name": None, "strict": True},
    # renamed GraphNode output under strict types
    {"nodes": [{"name": "inner", "kind": "graph", "graph": {"nodes": [_src], "edges": None, "name": "inner", "strict": False},
                "out_rename": {"x": "y"}, "in_rename": {}, "map_over": []},
               fnode("c", ["y"], ["w"], {"y": INT}, {"w": INT})],
     "edges": None, "name": None, "strict": True},
    # mapped GraphNode fed by a list producer under strict types
    {"nodes": [fnode("mk", ["n"], ["items"], {"n": INT}, {"items": C("list", INT)}),
               {"name": "inner", "kind": "graph", "graph": {"nodes": [_src], "edges": None, "name": "inner", "strict": False},
                "out_rename": {}, "in_rename": {"inp": "items"}, "map_over": ["items"]},
               fnode("c", ["x"], ["w"], {"x": C("Sequence", INT)}, {"w": INT})],
     "edges": None, "name": None, "strict": True},
    # explicit ordering-only edge between two producers of the same name
    {"nodes": [fnode("p1", ["i1"], ["x"], {"i1": INT}, {"x": INT}), fnode("p2", ["i2"], ["x"], {"i2": INT}, {"x": INT}),
               fnode("c", ["x"], ["o"], {"x": INT}, {"o": INT})],
     "edges": [["p1", "p2", None], ["p1", "c", ["x"]]], "name": "ex", "strict": True},
]
