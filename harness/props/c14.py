"""C14 — interrupts pause before dependants run and resume to the same result.

ORACLE: DAGs with 1-3 interrupts (any position, renamed inputs, inside nested graphs for the pause identity) are driven
through their whole pause/resume history: each run either completes or pauses at exactly one interrupt whose handler returned
None; the pause names the interrupt (path-qualified), shows its first input's value and the key to answer under; nothing that
depends on the interrupt's output has run; answering under that key passes the interrupt; the final result equals the run of the
same graph whose handlers return the responses themselves.
MODEL: Nested.exec_interrupt / isolation in superstep_async / pause path, status, values and call log per run of the history.
"""
from __future__ import annotations

import copy

from harness import gen, pdl, engine
from harness.common import c_list, c_pos, c_opt, canon


def add_interrupts(rng, g, k):
    """Turns k single-output function nodes (with >= 1 input, no edge-fed default) into interrupts whose handler pauses."""
    g = copy.deepcopy(g)
    produced = {o for n in g["nodes"] for o in pdl.node_outputs(n)}
    cands = [n for n in g["nodes"] if n["kind"] == "func" and len(n["outputs"]) == 1 and n["inputs"]
             and not any(p in produced for p in n.get("defaults", {}))]
    rng.shuffle(cands)
    chosen = cands[:k]
    for n in chosen:
        n["kind"] = "interrupt"
        n["fn"] = ["const", None]
        n["emit"], n["wait_for"] = [], []
        if g.get("ext") and rng.random() < 0.4:
            # the interrupt also emits an ordering signal that a node downstream waits for: that node is a dependant too
            sig = f"sig_{n['name']}"
            n["emit"] = [sig]
            g["nodes"].append({"name": f"aft_{n['name']}", "kind": "func", "inputs": [rng.choice(g["ext"])], "outputs": [f"aft_{n['name']}_o"],
                               "emit": [], "wait_for": [sig], "defaults": {}, "fn": ["sym", f"aft_{n['name']}"]})
    rng.shuffle(g["nodes"])
    return g, [n["name"] for n in chosen]


def sibling_interrupts(rng):
    """Several independent interrupts hanging off one upstream value: all become ready in the same superstep."""
    k = rng.randint(2, 3)
    nodes = [{"name": "src", "kind": "func", "inputs": ["x"], "outputs": ["a"], "emit": [], "wait_for": [], "defaults": {}, "fn": ["sym", "src"]}]
    for j in range(k):
        nodes.append({"name": f"ask{j}", "kind": "interrupt", "inputs": ["a"], "outputs": [f"d{j}"], "emit": [], "wait_for": [], "defaults": {},
                      "fn": ["const", None]})
    nodes.append({"name": "post", "kind": "func", "inputs": [f"d{j}" for j in range(k)], "outputs": ["r"], "emit": [], "wait_for": [], "defaults": {},
                  "fn": ["sym", "post"]})
    if rng.random() < 0.5:
        nodes.append({"name": "side", "kind": "func", "inputs": ["a"], "outputs": ["s"], "emit": [], "wait_for": [], "defaults": {}, "fn": ["sym", "side"]})
    rng.shuffle(nodes)
    return ({"nodes": nodes, "bound": {}, "entrypoints": None, "selected": None, "ext": ["x"], "int_valued": [], "siblings": True},
            [f"ask{j}" for j in range(k)])


def set_handlers(g, answers):
    g = copy.deepcopy(g)

    def walk(gg):
        for n in gg["nodes"]:
            if n["kind"] == "graph":
                walk(n["graph"])
            elif n["kind"] == "interrupt" and n["name"] in answers:
                n["fn"] = ["const", answers[n["name"]]]
    walk(g)
    return g


def find_node(g, name):
    for n in g["nodes"]:
        if n["name"] == name:
            return n
        if n["kind"] == "graph":
            r = find_node(n["graph"], name)
            if r:
                return r
    return None


def chain_program_part(ctx):
    """The chain of theorems C14_run_pauses / _resumes / _answered / C14_model_run (InterruptRun.chain: A(x) -> a ; I(a) -> d ;
    B(a, d) -> b) on the implementation: the pausing run, the resumed run and the run whose handler answers, for several x,
    responses (falsy ones included) and budgets; status, function-node call order and which of a, d, b are returned are compared
    with the model program's own runs (InterruptRunModel.chain_obs)."""
    from harness.common import c_list, c_pos, c_nat, c_Z, c_bool
    NAME = {"A": 10, "I": 15, "B": 11}

    def graph(handler_value):
        return {"nodes": [
            {"name": "A", "kind": "func", "inputs": ["x"], "outputs": ["a"], "emit": [], "wait_for": [], "defaults": {}, "fn": ["sym", "A"]},
            {"name": "I", "kind": "interrupt", "inputs": ["a"], "outputs": ["d"], "emit": [], "wait_for": [], "defaults": {}, "fn": ["const", handler_value]},
            {"name": "B", "kind": "func", "inputs": ["a", "d"], "outputs": ["b"], "emit": [], "wait_for": [], "defaults": {}, "fn": ["sym", "B"]}],
            "bound": {}, "entrypoints": None, "selected": None}
    items = []
    for resp in (7, 0, 3):
        for fuel in (2, 3, 4, 20):
            x = ctx.rng.randint(0, 9)
            plans = [(graph(None), {"x": x}, "(FConst VNone)", f"[(1%positive, VInt {c_Z(x)})]"),
                     (graph(None), {"x": x, "d": resp}, "(FConst VNone)", f"[(1%positive, VInt {c_Z(x)}); (32%positive, VInt {c_Z(resp)})]"),
                     (graph(resp), {"x": x}, f"(FConst (VInt {c_Z(resp)}))", f"[(1%positive, VInt {c_Z(x)})]")]
            for (g, inputs, handler_t, pv_t) in plans:
                rc = {"runner": "async", "inputs": inputs, "error_handling": "continue", "max_iterations": fuel}
                obs = pdl.run_real(g, rc)
                st = {"completed": 0, "failed": 1, "paused": 2}.get(obs["status"])
                if st is None:
                    ctx.violation("oracle", f"the interrupt chain ended {obs['status']}: {obs.get('error_repr')}", case={"graph": g, "run": rc})
                    continue
                calls = [c_pos(NAME[nm]) for nm, _ in obs["log"] if nm != "I"]
                vals = [c_bool(k in obs["values"]) for k in ("a", "d", "b")]
                real = f"({c_nat(st)}, {c_list(calls)}, {c_list(vals)})"
                items.append(({"graph": g, "run": rc}, 131, "chain_obs_eqb", f"chain_obs {handler_t} {c_nat(fuel)} {pv_t}", real))
                # ... and the returned values themselves, names pinned to the model program's (A = 10, B = 11, a = 31, d = 32, b = 33)
                from harness.common import Names
                PN = Names()
                PN.fwd = {"A": 10, "B": 11, "I": 15, "x": 1, "a": 31, "d": 32, "b": 33}
                PN.bwd = {v: k for k, v in PN.fwd.items()}
                items.append(({"graph": g, "run": rc}, 133, "dictV_eqb",
                              f"collect_all chain (match fst (execute (chain_exec {handler_t}) Async {c_nat(fuel)} chain {pv_t}) with "
                              f"RDone s => s | RFailed _ s => s | RPaused _ s => s end)", pdl.c_dictval(PN, obs["values"])))
    return engine.run_model_programs(ctx, "C14", ["Samples", "GateRun", "InterruptRun", "InterruptRunModel"], items)


def cached_interrupt_part(ctx, model=True):
    """Interrupts declared cache=True (documented: "a previously auto-resolved response is replayed without re-running the
    handler") on a runner with a cache, driven through histories of runs that pause, are answered - with DIFFERENT responses for
    equal inputs - or are answered by the handler: every run must end exactly as the same run on a runner without a cache
    (a supplied response passes the interrupt as that response; an unanswered pausing interrupt pauses)."""
    import asyncio
    from hypergraph import AsyncRunner, Graph
    from hypergraph.cache import InMemoryCache
    from hypergraph.nodes import FunctionNode, InterruptNode
    from harness.common import Names, c_list, c_nat, c_Z, c_bool, c_opt
    rng = ctx.rng
    n = 0
    items = []
    MN = Names()
    for _ in range(ctx.n(40, 300)):
        auto = rng.choice([None, None, "auto"])
        cached = rng.random() < 0.8

        def handler(a, auto=auto):
            return auto

        def fa(x):
            return x + 1

        def fb(a, d):
            return (a, d)
        G = Graph([FunctionNode(fa, name="A", output_name="a", cache=rng.random() < 0.5), InterruptNode(handler, name="I", output_name="d", cache=cached),
                   FunctionNode(fb, name="B", output_name="b")])
        runner = AsyncRunner(cache=InMemoryCache())
        hist = []
        real_codes, model_calls = [], []
        for step in range(rng.randint(2, 5)):
            inputs = {"x": rng.choice([1, 1, 2])}
            if rng.random() < 0.65:
                inputs["d"] = rng.choice(["yes", "no", 0, ""])
            hist.append(inputs)
            case = {"family": "cached_interrupt", "interrupt_cache": cached, "handler_returns": auto, "history": list(hist)}
            try:
                got = asyncio.run(runner.run(G, dict(inputs)))
                ref = asyncio.run(AsyncRunner().run(G, dict(inputs)))
            except Exception as e:  # noqa: BLE001
                ctx.violation("oracle", f"run with a cacheable interrupt raised {type(e).__name__}: {e}", case=case)
                break
            n += 1
            o1 = (got.status.value, dict(got.values), got.pause.node_name if got.pause else None)
            o2 = (ref.status.value, dict(ref.values), ref.pause.node_name if ref.pause else None)
            # MODEL (CacheInterrupt.hist_obs): what the interrupt returned in this run of the history
            st_code = {"completed": 0, "failed": 1, "paused": 2}.get(got.status.value, 9)
            real_codes.append(f"({c_nat(st_code)}, {c_opt(got.values.get('d') if st_code == 0 else None, lambda v: pdl.c_val(MN, v))})")
            model_calls.append(f"({c_Z(inputs['x'] + 1)}, {c_opt(inputs['d'], lambda v: pdl.c_val(MN, v)) if 'd' in inputs else 'None'})")
            if o1 != o2:
                ctx.violation("oracle", f"run {len(hist)} of the history on a runner with a cache ended {o1}; without a cache it ends {o2}", case=case)
                break
        if real_codes:
            handler_t = "VNone" if auto is None else pdl.c_val(MN, auto)
            items.append(({"family": "cached_interrupt", "interrupt_cache": cached, "handler_returns": auto, "history": list(hist)}, 134, "hist_obs_eqb",
                          f"hist_obs {c_bool(cached)} {handler_t} {c_list(model_calls)}", c_list(real_codes)))
    if model and items:
        n += engine.run_model_programs(ctx, ctx.prop_id, ["Samples", "Nested", "Cache", "CacheProofs", "CacheInterrupt"], items)
    return n


def shared_handler_part(ctx):
    """ONE handler function reused for several interrupts of a graph (different node names, input renames, output names, some
    with an emit signal): the conversation pauses at each unanswered interrupt in dependency order under ITS OWN key, a supplied
    response passes exactly that interrupt, and the completed run equals the run whose handler answers by itself."""
    import asyncio
    from hypergraph import AsyncRunner, Graph
    from hypergraph.nodes import FunctionNode, InterruptNode
    rng = ctx.rng
    n = 0
    for _ in range(ctx.n(25, 200)):
        k = rng.randint(2, 3)
        chain = rng.random() < 0.6           # each question depends on the previous answer / all questions depend on the topic only
        emits = [rng.random() < 0.3 for _ in range(k)]
        two_runners = rng.random() < 0.5

        def build(answers):
            def ask(prompt):
                return answers.get(prompt)
            nodes = []
            for i in range(k):
                src = "topic" if (i == 0 or not chain) else f"ans{i - 1}"

                def mk_factory(i):
                    def mk(src_value):
                        return f"q{i}({src_value})"
                    return mk
                nodes.append(FunctionNode(mk_factory(i), name=f"mk{i}", output_name=f"p{i}").with_inputs(src_value=src))
                kw = {"emit": f"sig{i}"} if emits[i] else {}
                nodes.append(InterruptNode(ask, name=f"ask{i}", output_name=f"ans{i}", **kw).with_inputs(prompt=f"p{i}"))

            src_fin = "def fin(" + ", ".join(f"ans{i}" for i in range(k)) + "):\n    return (" + ", ".join(f"ans{i}" for i in range(k)) + ",)\n"
            ns = {}
            exec(src_fin, ns)  # noqa: S102
            nodes.append(FunctionNode(ns["fin"], name="fin", output_name="final"))
            order = list(range(len(nodes)))
            rng.shuffle(order)
            return Graph([nodes[j] for j in order])
        G = build({})
        runner = AsyncRunner()
        vals = {"topic": rng.randint(0, 5)}
        given = {}
        case = {"family": "shared_handler", "interrupts": k, "chain": chain, "emits": emits}
        ok = True
        for step in range(k + 1):
            try:
                r = asyncio.run((runner if not two_runners else AsyncRunner()).run(G, dict(vals)))
            except Exception as e:  # noqa: BLE001
                ctx.violation("oracle", f"conversation step {step} raised {type(e).__name__}: {e}", case=case)
                ok = False
                break
            n += 1
            if step < k:
                if chain:
                    want_nodes = {f"ask{step}"}
                else:
                    want_nodes = {f"ask{i}" for i in range(k) if f"ans{i}" not in vals}
                if r.pause is None or r.pause.node_name not in want_nodes:
                    ctx.violation("oracle", f"step {step}: expected a pause at one of {sorted(want_nodes)}, got status {r.status.value} "
                                  f"pause {r.pause and r.pause.node_name}", case=case)
                    ok = False
                    break
                i = int(r.pause.node_name[3:])
                if r.pause.response_key != f"ans{i}":
                    ctx.violation("oracle", f"step {step}: the pause at {r.pause.node_name} asks for the answer under {r.pause.response_key!r}, its output is 'ans{i}'", case=case)
                    ok = False
                    break
                if "final" in r.values:
                    ctx.violation("oracle", f"step {step}: 'final' was computed although {r.pause.node_name} is unanswered", case=case)
                resp = rng.choice([f"A{i}", 0, ""])
                given[i] = resp
                vals[r.pause.response_key] = resp
            else:
                if r.status.value != "completed":
                    ctx.violation("oracle", f"all {k} interrupts answered, yet the run ended {r.status.value} (pause {r.pause and r.pause.node_name})", case=case)
                    ok = False
                    break
                want_final = tuple(given[i] for i in range(k))
                if r.values.get("final") != want_final:
                    ctx.violation("oracle", f"the answered conversation ended with final={r.values.get('final')!r}, the responses were {want_final!r}", case=case)
    return n


def run(ctx):
    rng = ctx.rng
    cases, meta = [], []
    dist = {"interrupts": {}, "nested": 0, "auto": 0, "histories": 0}
    hist_groups = []
    tries = 0
    while len(hist_groups) < ctx.n(200, 1500) and tries < 20000:
        tries += 1
        r0 = rng.random()
        if r0 < 0.03:
            # an interrupt whose upstream-fed input has a signature default (known finding F-f)
            g = {"nodes": [
                {"name": "write", "kind": "func", "inputs": ["x0"], "outputs": ["draft"], "emit": [], "wait_for": [], "defaults": {}, "fn": ["sym", "write"]},
                {"name": "review", "kind": "interrupt", "inputs": ["draft"], "outputs": ["verdict"], "emit": [], "wait_for": [], "defaults": {"draft": 61}, "fn": ["const", None]},
                {"name": "publish", "kind": "func", "inputs": ["verdict"], "outputs": ["final"], "emit": [], "wait_for": [], "defaults": {}, "fn": ["sym", "publish"]}],
                "bound": {}, "entrypoints": None, "selected": None, "ext": ["x0"], "int_valued": ["x0"]}
            rng.shuffle(g["nodes"])
            ints = ["review"]
        elif r0 < 0.3:
            g, ints = sibling_interrupts(rng)
        else:
            base = gen.gen_dag(rng, max_nodes=6, edge_defaults=0.0, none_values=False)
            g, ints = add_interrupts(rng, base, rng.choice([1, 1, 2, 3]))
        if not ints:
            continue
        nested = rng.random() < 0.25 and not g.get("siblings")
        if nested:
            S = gen.convex_subset(rng, g)
            if not S or not any(x in S for x in ints):
                continue
            g = gen.nest(rng, g, S, "w0")
            dist["nested"] += 1
        # some handlers answer by themselves
        auto = {}
        for nm in ints:
            if rng.random() < 0.2:
                auto[nm] = 90 + len(auto)
        if auto:
            g = set_handlers(g, auto)
            dist["auto"] += 1
        try:
            inputs = gen.make_inputs(rng, g)
        except Exception:  # noqa: BLE001
            continue
        dist["interrupts"][len(ints)] = dist["interrupts"].get(len(ints), 0) + 1
        answers = {}
        vals = dict(inputs)
        idxs = []
        for step in range(len(ints) + 2):
            rc = {"runner": "async", "inputs": dict(vals), "error_handling": "continue", "max_iterations": 40,
                  "sched_seed": rng.randint(0, 10**6), "fresh_rank": True}
            obs = pdl.run_real(g, rc, rank=None)
            idxs.append(len(cases))
            cases.append((g, rc))
            meta.append({"pre": obs, "nested": nested})
            if obs["status"] != "paused":
                break
            if nested:
                # nested: the pause identity is decided by the model; answering under the advertised key is tried on the implementation
                key = obs["pause"]["key"]
                again = pdl.run_real(g, {**rc, "inputs": {**vals, key: 71}}, rank=None)
                dist["nested_resume_attempts"] = dist.get("nested_resume_attempts", 0) + 1
                if again["status"] == "paused" and again["pause"]["node"] == obs["pause"]["node"]:
                    ctx.violation("oracle", f"the interrupt {obs['pause']['node']} inside a nested graph cannot be answered: re-running with the response "
                                  f"supplied under pause.response_key {key!r} pauses at the same interrupt again",
                                  case={"family": "nested_resume", "graph": g, "inputs": dict(vals), "key": key, "node": obs["pause"]["node"]})
                break
            key = obs["pause"]["key"]
            r = rng.choice([70 + step, 0, "", []])        # falsy answers are answers too
            answers[obs["pause"]["node"]] = r
            vals[key] = r
        hist_groups.append({"g": g, "idxs": idxs, "answers": answers, "inputs": inputs, "ints": ints, "nested": nested})
        dist["histories"] += 1
    nontrivial = set()

    def extra(i, g, rc, obs, batch, N):
        msgs = []
        if obs["status"] == "paused":
            p = obs["pause"]
            comps = p["node"].split("/")
            leaf = comps[-1]
            # path-qualified through nesting: every prefix component is the NAME OF THE NODE (not of the inner graph) that holds the rest
            cur, n = g, None
            for c in comps[:-1]:
                holder = next((m for m in cur["nodes"] if m["name"] == c and m["kind"] == "graph"), None)
                if holder is None:
                    msgs.append(f"pause names {p['node']!r}: {c!r} is not a nested-graph node of the graph that holds it "
                                f"(nodes there: {[m['name'] for m in cur['nodes']]})")
                    return msgs
                cur = holder["graph"]
            n = next((m for m in cur["nodes"] if m["name"] == leaf), None)
            if n is None or n["kind"] != "interrupt":
                msgs.append(f"pause names {p['node']!r}, which is not an interrupt of the graph")
                return msgs
            if p["out"] != n["outputs"][0]:
                msgs.append(f"pause key parameter {p['out']!r} is not the interrupt's output {n['outputs'][0]!r}")
            exp_key = ".".join(p["node"].split("/")[:-1] + [n["outputs"][0]])
            if p["key"] != exp_key:
                msgs.append(f"response key {p['key']!r}, expected {exp_key!r}")
            recv = [kw for nm, kw in obs["log"] if nm == leaf]
            if recv and p["value"] != recv[-1].get(n["inputs"][0]):
                msgs.append(f"pause shows {p['value']!r}; the interrupt's first input was {recv[-1].get(n['inputs'][0])!r}")
            # nothing depending on the interrupt's output has run
            out = n["outputs"][0]
            for nm, kw in obs["log"]:
                if nm != leaf and out in kw and out not in rc["inputs"]:
                    msgs.append(f"node {nm} consumed {out!r} although the interrupt producing it is paused")
            if out in obs["values"] and out not in rc["inputs"]:
                msgs.append(f"the paused result already holds the interrupt's output {out!r}")
            # one at a time: while this interrupt is unanswered no OTHER pausing handler is consulted in the same run
            for nm, _ in obs["log"]:
                other = find_node(g, nm)
                if other is not None and other["kind"] == "interrupt" and nm != leaf and other["fn"] == ["const", None]:
                    msgs.append(f"interrupt {nm}'s handler was consulted in the run that paused at {leaf}")
            # values computed before the pause are returned (a handler that answered by itself counts)
            for nm, _ in obs["log"]:
                other = find_node(g, nm)
                if other is not None and not p["node"].count("/") and other["kind"] == "interrupt" and nm != leaf \
                        and other["fn"][0] == "const" and other["fn"][1] is not None and other["outputs"][0] not in obs["values"]:
                    msgs.append(f"interrupt {nm} answered {other['fn'][1]!r} before the pause, but {other['outputs'][0]!r} is missing from the paused result")
            # ... and so is the output of every ordinary node of the graph that ran in the paused run (a sibling of a pausing NESTED graph included)
            top = {m["name"]: m for m in g["nodes"]}
            for nm in dict.fromkeys(nm for nm, _ in obs["log"]):
                m = top.get(nm)
                if m is not None and m["kind"] == "func" and not g.get("selected") and any(o not in obs["values"] for o in m["outputs"]):
                    msgs.append(f"node {nm} ran in the run that paused at {p['node']} but its output {[o for o in m['outputs'] if o not in obs['values']]} "
                                f"is missing from the paused result (computed, thrown away, computed again on resume)")
            nontrivial.add(engine.program_key(g, rc))
            # MODEL: pause identity
            d = pdl.graph_depth(g) + 1
            path = c_list([c_pos(N(x)) for x in p["node"].split("/")])
            batch.add(i, 110, "opt_eqb pause_eqb", f"run_pause {d} Async $fuel $ng $pv",
                      f"Some (mk_pause {path} {c_pos(N(p['out']))} {pdl.c_val(N, p['value'])})")
        return msgs

    n_model_programs = chain_program_part(ctx)
    n_model_programs += cached_interrupt_part(ctx)
    n_model_programs += shared_handler_part(ctx)
    obs_all, res = engine.run_cases(ctx, "C14", cases, extra=extra)
    # history-level oracle: one interrupt at a time, in dependency order; final result == handlers answering themselves
    for h in hist_groups:
        seq = [obs_all[i] for i in h["idxs"] if i in obs_all]
        if not seq:
            continue
        paused_at = [o["pause"]["node"] for o in seq if o["status"] == "paused"]
        if len(set(paused_at)) != len(paused_at):
            ctx.violation("oracle", f"the same interrupt paused twice in one pause/resume history: {paused_at}", case={"graph": h["g"], "inputs": h["inputs"]})
        if h["nested"]:
            continue
        last = seq[-1]
        if last["status"] == "paused":
            ctx.violation("oracle", f"history did not terminate: still paused at {last['pause']['node']} after answering {sorted(h['answers'])}",
                          case={"graph": h["g"], "inputs": h["inputs"], "answers": h["answers"]})
            continue
        g2 = set_handlers(h["g"], h["answers"])
        ref = pdl.run_real(g2, {"runner": "async", "inputs": h["inputs"], "error_handling": "continue", "max_iterations": 40})
        if ref["status"] != last["status"] or ref["values"] != last["values"]:
            ctx.violation("oracle", f"resumed run ended {last['status']} {last['values']}; with the handlers returning the same responses the run ends {ref['status']} {ref['values']}",
                          case={"graph": h["g"], "inputs": h["inputs"], "answers": h["answers"]})
    ctx.coverage.update(
        evaluations=len(cases) + n_model_programs, coq_checks=res["n"], distinct_nontrivial=len(nontrivial),
        rule="random DAGs with 1-3 single-output nodes turned into interrupts (handler pauses; 20% answer themselves), 25% with the "
             "interrupt inside a nested graph; each driven through its complete pause/resume history on AsyncRunner under adversarial "
             "completion orders; plus (oracle only) chains with a cache=True interrupt on a caching runner, histories of 2-5 runs answered with "
             "different responses for equal inputs, each compared with the uncached run, and conversations over 2-3 interrupts sharing ONE handler "
             "function; non-trivial = a run that paused",
        distribution=dist, samples=[{"graph": cases[0][0]["nodes"], "run": cases[0][1]}] if cases else [],
        traces_validated_against_impl=len(obs_all), disagreements_checked=res["n"])
