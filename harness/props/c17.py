"""C17 — ordering signals: a waiting node runs after, and once per, each production.

ORACLE (implementation's event stream): at every start of a waiter each awaited name has a completed producer;
no producer of an awaited name is executing at that moment (same step); between two starts of the waiter every
awaited name was produced again.  Liveness: acyclic programs against the dependency-order SPEC (a waiter whose
signals are produced and whose inputs are satisfiable runs), loops synchronised on a signal against the do-while SPEC.
MODEL: exact call sequence / values against Engine.execute.
"""
from __future__ import annotations

import copy

from harness import gen, pdl, engine
from harness.common import c_Z, c_nat, c_bool


def F(name, ins, outs, fn, emit=(), wait=(), defaults=None):
    return {"name": name, "kind": "func", "inputs": list(ins), "outputs": list(outs), "emit": list(emit), "wait_for": list(wait),
            "defaults": dict(defaults or {}), "fn": fn}


def stages(rng):
    """Two ordered stages both emitting the same signal; a waiter fed by a side chain of random length."""
    k = rng.randint(0, 3)
    nodes = [F("stage1", ["x"], ["m"], ["sym", "stage1"], emit=["sdone"]), F("stage2", ["m"], ["out"], ["sym", "stage2"], emit=["sdone"])]
    prev = "seed"
    for j in range(k):
        nodes.append(F(f"w{j}", [prev], [f"p{j}"], ["sym", f"w{j}"]))
        prev = f"p{j}"
    nodes.append(F("report", [prev], ["rep"], ["sym", "report"], wait=["sdone"]))
    if rng.random() < 0.5:
        nodes.append(F("report2", ["x"], ["rep2"], ["sym", "report2"], wait=["sdone"]))
    rng.shuffle(nodes)
    return {"nodes": nodes, "bound": {}, "entrypoints": None, "selected": None}, {"x": 1, "seed": 2}


def two_signal_cycle(rng, N):
    """cont(n) routes to prodA always and prodB on even n; consume waits for BOTH signals."""
    tbl = [[n, (["prodA", "prodB"] if n % 2 == 0 else ["prodA"])] for n in range(N)]
    nodes = [
        {"name": "cont", "kind": "route", "inputs": ["n"], "outputs": [], "emit": [], "wait_for": [], "defaults": {}, "fn": ["gtable", tbl, ["END"]],
         "targets": ["prodA", "prodB", "END"], "multi": True, "fallback": None, "default_open": False},
        F("prodA", ["n"], ["a"], ["add", 0], emit=["sa"]),
        F("prodB", ["n"], ["b"], ["add", 0], emit=["sb"]),
        F("advance", ["a"], ["n"], ["add", 1]),
        F("consume", ["n"], ["c"], ["sym", "consume"], wait=["sa", "sb"]),
    ]
    rng.shuffle(nodes)
    return {"nodes": nodes, "bound": {}, "entrypoints": None, "selected": None}, {"n": 0}


def gate_emitter(rng):
    """The producer of the signal is a gate (emit on a gate node)."""
    nodes = [
        {"name": "g", "kind": "ifelse", "inputs": ["c"], "outputs": [], "emit": ["decided"], "wait_for": [], "defaults": {}, "fn": ["glt", 1],
         "when_true": "a", "when_false": "b", "default_open": rng.random() < 0.5},
        F("a", ["x"], ["ao"], ["sym", "a"]), F("b", ["x"], ["bo"], ["sym", "b"]),
        F("after", ["x"], ["late"], ["sym", "after"], wait=["decided"]),
    ]
    rng.shuffle(nodes)
    return {"nodes": nodes, "bound": {}, "entrypoints": None, "selected": None}, {"c": rng.randint(0, 1), "x": 3}


def nested_signal(rng):
    """The signal is emitted by a node INSIDE a nested graph (optionally a mapping one, optionally two levels down, optionally
    with the wrapper's data output renamed); a node of the enclosing graph waits for it."""
    F = lambda name, ins, outs, **kw: dict({"name": name, "kind": "func", "inputs": ins, "outputs": outs, "emit": [], "wait_for": [],  # noqa: E731
                                           "defaults": {}, "fn": ["sym", name]}, **kw)
    inner_nodes = [F("work", ["x"], ["r"], emit=["done"])]
    if rng.random() < 0.5:
        inner_nodes.append(F("side", ["x"], ["s"]))
    inner = {"nodes": inner_nodes, "bound": {}, "entrypoints": None, "selected": None, "name": "w_g"}
    w = {"name": "w", "kind": "graph", "graph": inner, "inputs": [], "outputs": [], "in_hist": [], "out_hist": []}
    mapped = rng.random() < 0.4
    if rng.random() < 0.3:
        outer_inner = {"nodes": [w], "bound": {}, "entrypoints": None, "selected": None, "name": "v_g"}
        w = {"name": "v", "kind": "graph", "graph": outer_inner, "inputs": [], "outputs": [], "in_hist": [], "out_hist": []}
    if rng.random() < 0.3:
        w["out_hist"] = [{"r": "r2"}]
    if mapped:
        w["map_over"], w["map_mode"] = ["x"], "zip"
    nodes = [w, F("after", ["y"], ["a_out"], wait_for=["done"])]
    if rng.random() < 0.5:
        nodes.append(F("second", ["y"], ["b_out"], wait_for=["done"]))
    rng.shuffle(nodes)
    inputs = {"x": [1, 2] if mapped else 1, "y": 5}
    return {"nodes": nodes, "bound": {}, "entrypoints": None, "selected": None}, inputs


def interrupt_signal(rng):
    """An interrupt that emits a signal a plain node waits for; the run either lets the handler answer or supplies the answer
    under the interrupt's output name (the resume path).  Either way the interrupt completes, so the waiter must run once."""
    F = lambda name, ins, outs, **kw: dict({"name": name, "kind": "func", "inputs": ins, "outputs": outs, "emit": [], "wait_for": [],  # noqa: E731
                                           "defaults": {}, "fn": ["sym", name]}, **kw)
    resume = rng.random() < 0.6
    ask = {"name": "ask", "kind": "interrupt", "inputs": ["q"], "outputs": ["ans"], "emit": ["asked"], "wait_for": [], "defaults": {},
           "fn": ["const", None] if resume else ["const", 9]}
    nodes = [F("mk", ["x"], ["q"]), ask, F("rec", ["y"], ["rec_out"], wait_for=["asked"]), F("use", ["ans"], ["u"])]
    rng.shuffle(nodes)
    inputs = {"x": 1, "y": 5}
    if resume:
        inputs["ans"] = rng.choice([70, 0, "s"])
    return {"nodes": nodes, "bound": {}, "entrypoints": None, "selected": None}, inputs


def oracle(g, obs):
    bad = []
    nodes = {n["name"]: n for n in g["nodes"]}
    producers = {}
    for n in g["nodes"]:
        for o in (gen.iface(n)[1] if n["kind"] == "graph" else pdl.node_outputs(n)):
            producers.setdefault(o, set()).add(n["name"])
    open_spans, ends, last_start = {}, [], {}
    t = 0
    for ev in obs.get("events", []):
        t += 1
        ty, name = ev["type"], ev.get("node_name")
        if ty == "NodeStartEvent":
            w = nodes.get(name)
            if w and w.get("wait_for"):
                for s in w["wait_for"]:
                    ps = producers.get(s, set()) - {name}
                    done = [te for (te, p) in ends if p in ps]
                    if not done:
                        bad.append(f"{name} started before any producer of '{s}' completed")
                    running = [p for p in open_spans.values() if p in ps]
                    if running:
                        bad.append(f"{name} started in the same step as {running}, a producer of '{s}'")
                    if name in last_start and not any(te > last_start[name] for te in done):
                        bad.append(f"{name} started again although '{s}' was not produced again since its previous run")
            # ... and the other way round: a producer of an awaited name starting while a waiter of that name is executing
            me = nodes.get(name)
            if me is not None:
                mine = set(gen.iface(me)[1] if me["kind"] == "graph" else pdl.node_outputs(me))
                for wn in set(open_spans.values()):
                    w2 = nodes.get(wn)
                    if w2 and wn != name and set(w2.get("wait_for") or []) & mine:
                        bad.append(f"{name}, a producer of {sorted(set(w2['wait_for']) & mine)}, started while the waiter {wn} was executing (same step)")
            last_start[name] = t
            open_spans[ev["span"]] = name
        elif ty == "NodeEndEvent":
            nm = open_spans.pop(ev["span"], name)
            ends.append((t, nm))
        elif ty == "NodeErrorEvent":
            open_spans.pop(ev["span"], None)
    return bad


def two_signal_waiter_part(ctx):
    """A node waiting for TWO names: a pipeline's end signal that arrives late, and a signal a loop re-emits every round.  When the
    late one arrives the loop's producer is ready again in the same step: the waiter is put off - whatever the order in which it
    lists the names, the length of the pipeline, the node order.  Observed on AsyncRunner with bodies that really suspend: nodes
    of one superstep overlap in time, supersteps do not."""
    import asyncio
    from hypergraph import END, AsyncRunner, Graph
    from hypergraph.nodes import FunctionNode, RouteNode
    rng = ctx.rng
    n = 0
    combos = [(L_, o_) for L_ in (1, 2, 3, 4) for o_ in (("prepared", "polled"), ("polled", "prepared"))]
    for rep in range(ctx.n(8, 64)):
        (L, order), bound = combos[rep % len(combos)], rng.randint(3, 6)
        ev = []

        def body(name, fn):
            async def f(**kw):
                ev.append(("start", name))
                for _j in range(3):
                    await asyncio.sleep(0)
                ev.append(("end", name))
                return fn(**kw)
            return f
        nodes = []
        prev = "x"
        for j in range(L):
            out = f"s{j}"
            ns = {}
            exec(f"async def st{j}({prev}):\n    return await _b({prev}={prev})\n", {"_b": body(f"st{j}", lambda **kw: 1)}, ns)  # noqa: S102
            nodes.append(FunctionNode(ns[f"st{j}"], name=f"st{j}", output_name=out, emit=("prepared",) if j == L - 1 else ()))
            prev = out
        ns = {}
        exec("async def poll(i):\n    return await _b(i=i)\n", {"_b": body("poll", lambda i: i + 1)}, ns)  # noqa: S102
        nodes.append(FunctionNode(ns["poll"], name="poll", output_name="i", emit=("polled",)))
        ns = {}
        exec(f"def more(i):\n    return 'poll' if i < {bound} else END\n", {"END": END}, ns)  # noqa: S102
        nodes.append(RouteNode(ns["more"], targets=["poll", END], name="more"))
        ns = {}
        exec("async def report(x):\n    return await _b(x=x)\n", {"_b": body("report", lambda x: x)}, ns)  # noqa: S102
        nodes.append(FunctionNode(ns["report"], name="report", output_name="report_out", wait_for=order))
        rng.shuffle(nodes)
        case = {"family": "two_signal_waiter", "pipeline": L, "bound": bound, "wait_for": list(order), "node_order": [m.name for m in nodes]}
        try:
            asyncio.run(AsyncRunner().run(Graph(nodes), {"x": 7, "i": 0}, max_iterations=60))
        except Exception as e:  # noqa: BLE001
            ctx.violation("oracle", f"two-signal waiter: the run raised {type(e).__name__}: {str(e)[:100]}", case=case)
            continue
        n += 1
        open_, bad = set(), None
        for kind, name in ev:
            if kind == "start":
                if name == "report" and open_ & {"poll", f"st{L - 1}"}:
                    bad = f"report started while {sorted(open_ & {'poll', f'st{L - 1}'})} - producer(s) of a name it waits for - were executing"
                if name in ("poll", f"st{L - 1}") and "report" in open_:
                    bad = f"{name}, a producer of a name report waits for, started while report was executing"
                open_.add(name)
            else:
                open_.discard(name)
        if bad:
            ctx.violation("oracle", f"{bad} (same superstep; wait_for={order}, pipeline of {L}, loop bound {bound})", case=case)
        elif ("start", "report") not in ev and bound >= L:
            pass    # (whether the waiter runs at all depends on the loop still emitting when the pipeline ends: not judged)
    return n


def value_signal_part(ctx):
    """wait_for naming a DATA output (allowed: "an emit or output_name"): a loop whose gate waits for a per-iteration status
    value.  Every production of the name counts - the gate runs once per iteration and the loop reaches its bound - whether the
    produced values differ from pass to pass or happen to be equal."""
    import asyncio
    from hypergraph import END, AsyncRunner, Graph, SyncRunner
    from hypergraph.nodes import FunctionNode, RouteNode
    rng = ctx.rng
    n = 0
    for _ in range(ctx.n(16, 120)):
        limit = rng.randint(1, 5)
        constant = rng.random() < 0.5           # the status is the same value every pass / changes every pass
        runner = rng.choice(["sync", "async"])
        log = []

        def inc(count):
            log.append("inc")
            return count + 1

        def stat(count, constant=constant):
            log.append("stat")
            return "ok" if constant else f"ok{count}"

        def check(count, limit=limit):
            log.append("check")
            return END if count >= limit else "inc"
        G = Graph([FunctionNode(inc, name="inc", output_name="count"), FunctionNode(stat, name="stat", output_name="status"),
                   RouteNode(check, targets=["inc", END], wait_for="status", default_open=False, name="check")])
        try:
            res = SyncRunner().run(G, {"count": 0}, max_iterations=80) if runner == "sync" else asyncio.run(AsyncRunner().run(G, {"count": 0}, max_iterations=80))
        except Exception as e:  # noqa: BLE001
            ctx.violation("oracle", f"value-signal loop raised {type(e).__name__}: {e}", case={"family": "value_signal", "limit": limit, "constant_status": constant})
            continue
        n += 1
        case = {"family": "value_signal", "limit": limit, "constant_status": constant, "runner": runner}
        if res.values.get("count") != max(limit, 1) or log.count("check") != log.count("stat"):
            ctx.violation("oracle", f"gate waiting for the data output 'status' ({'the same value' if constant else 'a new value'} every pass): 'status' was produced "
                          f"{log.count('stat')} time(s), the gate ran {log.count('check')} time(s), the loop ended at count={res.values.get('count')} "
                          f"(bound {limit}) with status {res.status.value}: a production of the waited-for name was not followed by a run of the waiter",
                          case=case)
    return n


def run(ctx):
    rng = ctx.rng
    cases, meta = [], []
    base = {"error_handling": "continue", "max_iterations": 80, "events": True}

    def add(g, inputs, md, runners=("sync", "async")):
        for r in runners:
            cases.append((copy.deepcopy(g), dict(base, runner=r, inputs=inputs, sched_seed=rng.randint(0, 10**6), fresh_rank=True)))
            meta.append(md)

    for _ in range(ctx.n(160, 1500)):
        g = gen.gen_dag(rng, max_nodes=7, emits=0.6)
        try:
            inputs = gen.make_inputs(rng, g)
        except Exception:  # noqa: BLE001
            continue
        add(g, inputs, {"family": "emit_dag"}, runners=(rng.choice(["sync", "async"]),))
    for _ in range(ctx.n(20, 300)):
        g, inputs = stages(rng)
        add(g, inputs, {"family": "stages"})
    for N in ([2, 3, 6] if ctx.quick() else range(0, 9)):
        g, inputs = two_signal_cycle(rng, N)
        add(g, inputs, {"family": "two_signal_cycle", "N": N})
    for _ in range(ctx.n(6, 60)):
        g, inputs = gate_emitter(rng)
        add(g, inputs, {"family": "gate_emitter"})
    for m in (1, 2, 3):
        for N in ([0, 1, 3, 5] if ctx.quick() else range(0, 9)):
            g = gen.gen_loop(rng, m=m, N=N, wait_sync=True, exit_node=False)
            add(g, {"x": 0}, {"family": "L2", "m": m, "N": N})
    for _ in range(ctx.n(12, 120)):
        g, inputs = nested_signal(rng)
        add(g, inputs, {"family": "nested_signal"})
    for _ in range(ctx.n(8, 60)):
        g, inputs = interrupt_signal(rng)
        add(g, inputs, {"family": "interrupt_signal"}, runners=("async",))
    nontrivial = set()
    dist = {}

    def count(obs, name):
        return sum(1 for n, _ in obs["log"] if n == name)

    def extra(i, g, rc, obs, batch, N_):
        md = meta[i]
        dist[md["family"]] = dist.get(md["family"], 0) + 1
        msgs = oracle(g, obs)
        waiters_ran = [n["name"] for n in g["nodes"] if n.get("wait_for") and count(obs, n["name"])]
        if waiters_ran:
            nontrivial.add(engine.program_key(g, rc))
        log = pdl.c_log(N_, obs["log"])
        produced = {o for n in g["nodes"] for o in pdl.node_outputs(n)}
        waiter_default = any(n.get("wait_for") and any(p in produced for p in n.get("defaults", {})) for n in g["nodes"])
        if md["family"] in ("emit_dag", "stages") and obs["status"] == "completed":
            # liveness on acyclic gate-free programs: the dependency-order SPEC (wait_for included) decides who runs
            batch.add(i, 1, "Bool.eqb", f"runs_iff_evaluable $ft $gt $g $pv {log}", "true")
            batch.add(i, 2, "dictV_eqb", "denote_values (exec_basic $ft $gt) $g $pv", pdl.c_dictval(N_, obs["values"]))
        if md["family"] == "nested_signal":
            if obs["status"] != "completed":
                msgs.append(f"run ended {obs['status']} ({obs.get('error_repr')})")
            for nm in ("after", "second"):
                if any(n["name"] == nm for n in g["nodes"]) and count(obs, nm) != 1:
                    msgs.append(f"{nm} waits for a signal emitted inside a nested graph that completed, and ran {count(obs, nm)} times")
            if "done" in obs["values"]:
                msgs.append(f"the ordering-only name 'done' is among the returned values: {obs['values']['done']!r}")
        if md["family"] == "interrupt_signal":
            if obs["status"] != "completed":
                msgs.append(f"run ended {obs['status']} ({obs.get('error_repr')})")
            elif count(obs, "rec") != 1:
                msgs.append(f"the interrupt that emits 'asked' completed ({'answer supplied by the caller' if 'ans' in rc['inputs'] else 'handler answered'}), "
                            f"but the node waiting for 'asked' ran {count(obs, 'rec')} times")
        if md["family"] == "gate_emitter" and obs["status"] == "completed" and count(obs, "after") != 1:
            msgs.append(f"the node waiting on the gate's signal ran {count(obs, 'after')} times")
        if md["family"] == "L2" and obs["status"] == "completed":
            m, N = md["m"], md["N"]
            batch.add(i, 3, "opt_eqb (pair_eqb Z.eqb Nat.eqb)", f"family_loop true {c_Z(m)} {c_Z(m * N)} {c_Z(0)}",
                      f"Some ({c_Z(obs['values'].get('x', 0))}, {c_nat(count(obs, 'b1'))})")
            if count(obs, "gate") != count(obs, "b1"):
                msgs.append(f"the gate waiting on the end-of-iteration signal ran {count(obs, 'gate')} times for {count(obs, 'b1')} iterations")
        if md["family"] == "two_signal_cycle" and obs["status"] == "completed":
            N = md["N"]
            exp = len([n for n in range(N) if n % 2 == 0])
            if count(obs, "consume") != exp:
                msgs.append(f"consume (waits for both signals) ran {count(obs, 'consume')} times; both signals were produced together {exp} times")
        return msgs

    n_value_signal = value_signal_part(ctx) + two_signal_waiter_part(ctx)
    obs_all, res = engine.run_cases(ctx, "C17", cases, extra=extra)
    ctx.coverage.update(
        evaluations=len(cases) + n_value_signal, coq_checks=res["n"], distinct_nontrivial=len(nontrivial),
        rule="DAGs with emit/wait_for pairs (several waiters per signal), two ordered stages emitting one signal with a waiter fed by a side "
             "chain of length 0-3, a cycle whose waiter awaits two signals one of which is produced every other iteration, a gate as "
             "producer, loops whose gate waits on the end-of-iteration signal, signals emitted inside nested graphs (plain, mapping, two levels, "
             "renamed data output) awaited in the enclosing graph, an interrupt emitting a signal (handler answers / answer supplied by the caller); both runners, adversarial completion orders; "
             "non-trivial = some waiting node actually ran",
        distribution=dist, samples=[{"graph": cases[0][0]["nodes"], "run": cases[0][1]}],
        traces_validated_against_impl=len(obs_all), disagreements_checked=res["n"])
