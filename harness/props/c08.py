"""C08 — the reported input spec is exact; violations fail before execution.

ORACLE (implementation against the property text): required / optional / entry-point parameters pairwise disjoint;
supplying every required input (plus, for a cyclic graph, the parameters of ONE listed entry point) is accepted; omitting
any single required input raises MissingInputError before any node function or event processor is invoked; binding a
required name removes it from required, unbinding restores the spec.
MODEL (codes >= 100): InputSpec.input_spec / validate against Graph.inputs and the runner's accept/reject decision.
"""
from __future__ import annotations

import copy

from harness import gen, pdl, engine
from harness.common import CoqBatch, Names, c_list, c_pos, c_opt, c_pair, canon

IMPORTS = engine.IMPORTS + ["InputSpec"]


def configure(rng, g0):
    g = copy.deepcopy(g0)
    funcs = [n["name"] for n in g["nodes"] if n["kind"] == "func"]
    data_outs = [o for n in g["nodes"] for o in n.get("outputs", [])]
    if funcs and rng.random() < 0.3:
        g["entrypoints"] = rng.sample(funcs, rng.randint(1, min(2, len(funcs))))
    if data_outs and rng.random() < 0.35:
        g["selected"] = rng.sample(data_outs, rng.randint(1, min(2, len(data_outs))))
    return g


def real_spec(G):
    s = G.inputs
    return {"required": list(s.required), "optional": list(s.optional),
            "entry": {k: list(v) for k, v in s.entrypoints.items()}, "bound": dict(s.bound), "all": list(s.all)}


def attempt(g, inputs, runner="sync", select=None):
    rc = {"runner": runner, "inputs": inputs, "error_handling": "continue", "max_iterations": 30, "events": True}
    if select is not None:
        rc["select"] = select
    obs = pdl.run_real(g, rc)
    if obs["status"] == "raised":
        cls = obs.get("error_class")
        kind = "missing" if cls == "MissingInputError" else ("valueerror" if cls == "ValueError" else f"raised:{cls}")
    else:
        kind = "accepted"
    return kind, obs


def run(ctx):
    rng = ctx.rng
    N = Names()
    batch = CoqBatch("C08", IMPORTS, shard=200)
    dist = {"family": {}, "bound": 0, "entrypoints": 0, "selected": 0, "cyclic": 0, "omissions": 0}
    nontrivial, n_eval = set(), 0
    cases_dbg = {}
    samples = []
    i = 0
    target = ctx.n(400, 3000)
    tries = 0
    while i < target and tries < target * 3:
        tries += 1
        g0, fam = gen.gen_program(rng, rng.choice(["dag", "dag", "gated", "emit", "loop", "loop_sync", "cyc", "twocyc"])) if True else None
        g = configure(rng, g0)
        gen.via_renames(rng, g, 0.25)   # some nodes derived by with_inputs from an (already used) node object
        try:
            G0 = engine.real_input_spec(g)
        except Exception:  # noqa: BLE001
            continue
        spec0 = real_spec(G0)
        # bind some plain inputs (never outputs: see known finding on bound output names)
        cands = spec0["required"] + spec0["optional"]
        bound = {x: 40 + k for k, x in enumerate(cands) if rng.random() < 0.25}
        g["bound"] = bound
        try:
            G = engine.real_input_spec(g)
        except Exception:  # noqa: BLE001
            continue
        spec = real_spec(G)
        dist["family"][fam] = dist["family"].get(fam, 0) + 1
        dist["bound"] += int(bool(bound))
        dist["entrypoints"] += int(bool(g.get("entrypoints")))
        dist["selected"] += int(g.get("selected") is not None)
        dist["cyclic"] += int(bool(spec["entry"]))
        case = {"graph": g}
        cases_dbg[i] = {"graph": g, "reported": spec}
        # ---------------- MODEL: the reported spec
        nodes_t = c_list([pdl.c_node(N, n, k + 1) for k, n in enumerate(g["nodes"])])
        names = lambda l: c_list([c_pos(N(x)) for x in l])  # noqa: E731
        batch.add_def(i, "nodes", nodes_t, "list node")
        batch.add_def(i, "bound", pdl.c_dictval(N, bound), "dict val")
        batch.add_def(i, "eps", c_opt(g.get("entrypoints"), names), "option (list name)")
        batch.add_def(i, "sel", c_opt(g.get("selected"), names), "option (list name)")
        # the selection scope has two admissible extremes (see InputSpec.active_from_selection); the report must equal one
        batch.add_def(i, "hi", "input_spec_w true $nodes $bound [] $eps $sel", "ispec")
        batch.add_def(i, "lo", "input_spec_w false $nodes $bound [] $eps $sel", "ispec")
        real_t = (f"(mk_ispec {names(spec['required'])} {names(spec['optional'])} "
                  f"{c_list([c_pair(c_pos(N(k)), names(v)) for k, v in spec['entry'].items()])} {pdl.c_dictval(N, spec['bound'])})")
        # (check 101 accepts any PER-TARGET choice between the two extremes: InputSpec.some_scope_spec)
        batch.add(i, 101, "some_scope_spec $nodes $bound [] $eps", "$sel", real_t)
        # ---------------- ORACLE
        R, O = set(spec["required"]), set(spec["optional"])
        E = {p for ps in spec["entry"].values() for p in ps}
        if (R & O) or (R & E) or (O & E):
            ctx.violation("oracle", f"required / optional / entry-point parameters overlap: {sorted(R & O)} {sorted(R & E)} {sorted(O & E)}", case=case, observed=spec)
        for x in bound:
            if x in R:
                ctx.violation("oracle", f"bound name {x!r} is still reported as required", case=case, observed=spec)
        # exactness against the function signatures as the program wrote them (flat graphs): a reported-required name has a
        # consumer without a default for it; an unbound reported-optional name has a default in every consumer
        if all(n["kind"] != "graph" for n in g["nodes"]):
            users = lambda x: [n for n in g["nodes"] if x in n["inputs"]]  # noqa: E731
            for x in R:
                if users(x) and all(x in n.get("defaults", {}) for n in users(x)):
                    ctx.violation("oracle", f"{x!r} is reported as required although every node reading it ({[n['name'] for n in users(x)]}) has a default for it", case=case, observed=spec)
            for x in O - set(bound):
                lacking = [n["name"] for n in users(x) if x not in n.get("defaults", {})]
                if lacking:
                    ctx.violation("oracle", f"{x!r} is reported as optional although {lacking} read(s) it without a default and nothing binds it", case=case, observed=spec)
        if bound:
            Gu = G.unbind(*bound)
            if real_spec(Gu) != spec0:
                ctx.violation("oracle", f"unbind does not restore the spec: {real_spec(Gu)} vs {spec0}", case=case)
        base_inputs = {x: rng.randint(0, 3) for x in spec["required"]}
        # one listed entry point PER CYCLE (strongly connected component of the data graph)
        groups = cycle_groups(g, spec["entry"])
        combos = []
        if groups:
            for k in range(min(2, max(len(grp) for grp in groups))):
                combos.append([grp[min(k, len(grp) - 1)] for grp in groups])
        entry_choices = combos or [None]
        for ep in entry_choices[:2]:
            inputs = dict(base_inputs)
            if ep is not None:
                for e1 in ep:
                    for x in spec["entry"][e1]:
                        inputs[x] = rng.randint(0, 3)
            runner = rng.choice(["sync", "async"])
            kind, obs = attempt(g, inputs, runner)
            n_eval += 1
            batch.add(i, 110 + entry_choices.index(ep), "some_scope_vres $nodes $bound [] $eps $sel", f"{pdl.c_dictval(N, inputs)}", vres(kind))
            if kind != "accepted":
                ctx.violation("oracle", f"all required inputs{' and the parameters of entry point(s) ' + str(ep) if ep else ''} supplied, yet the call is rejected: {obs.get('error_repr')}",
                              case={"graph": g, "run": {"inputs": inputs, "entry_point": ep}}, observed=spec)
            # each single omission
            for x in spec["required"]:
                less = {k: v for k, v in inputs.items() if k != x}
                kind2, obs2 = attempt(g, less, runner)
                n_eval += 1
                dist["omissions"] += 1
                batch.add(i, 120, "some_scope_vres $nodes $bound [] $eps $sel", f"{pdl.c_dictval(N, less)}", vres(kind2))
                if kind2 != "missing":
                    ctx.violation("oracle", f"required input {x!r} omitted but the call was {kind2} ({obs2.get('error_repr')})",
                                  case={"graph": g, "run": {"inputs": less, "omitted": x, "entry_point": ep}}, observed=spec)
                if obs2["log"] or obs2.get("events") or obs2.get("shutdowns"):
                    ctx.violation("oracle", f"rejected call (omitted {x!r}) still invoked {len(obs2['log'])} node function(s) / delivered {len(obs2.get('events', []))} event(s)",
                                  case={"graph": g, "run": {"inputs": less, "omitted": x}})
            # cyclic: omitting the seed of the chosen entry point
            if ep is not None and len(spec["entry"]) == 1:
                less = {k: v for k, v in inputs.items() if k not in spec["entry"][ep[0]]}
                kind3, obs3 = attempt(g, less, runner)
                n_eval += 1
                batch.add(i, 121, "some_scope_vres $nodes $bound [] $eps $sel", f"{pdl.c_dictval(N, less)}", vres(kind3))
                if kind3 != "missing":
                    ctx.violation("oracle", f"cycle seed of the only entry point omitted but the call was {kind3}", case={"graph": g, "run": {"inputs": less}}, observed=spec)
        if len(g["nodes"]) >= 3 and (bound or g.get("entrypoints") or g.get("selected") is not None or spec["entry"]):
            nontrivial.add(canon({"n": g["nodes"], "b": bound, "e": g.get("entrypoints"), "s": g.get("selected")}))
        if len(samples) < 2:
            samples.append({"graph": {k: g[k] for k in ("nodes", "bound", "entrypoints", "selected")}, "reported": spec})
        i += 1
    n_eval += nested_part(ctx, dist, nontrivial, batch, N, cases_dbg, i)
    n_eval += derived_after_select_run_part(ctx)
    n_eval += nested_two_entry_cycle_part(ctx)
    n_eval += bound_output_part(ctx, dist)
    res = batch.run()
    if res["error"]:
        ctx.violation("harness", res["error"])
    for (ci, code, mv, real, mexp) in res["failed"]:
        ctx.violation("correspondence", f"check {code}: implementation {real} vs model {mv}", case=cases_dbg.get(ci), expr=mexp)
    ctx.coverage.update(
        evaluations=n_eval, coq_checks=res["n"], distinct_nontrivial=len(nontrivial),
        rule="dag / gated / emit / loop (L1, L2) / multi-entry cyclic programs x bind x with_entrypoint x select; for each: the full input "
             "set per listed entry point, and every single omitted required input, on both runners with an event processor attached; "
             "plus (oracle only) DAGs with groups wrapped into nested graphs to depth 1-2: inner bindings, a sibling sharing an inner-bound name, "
             "wrapper inputs renamed before / after the wrapper object was used, selections leaving the nested graph out of scope; "
             "non-trivial = >=3 nodes and at least one of bind/entrypoint/select/cycle in play",
        distribution=dist, samples=samples, traces_validated_against_impl=n_eval, disagreements_checked=res["n"])
    ctx.assumptions += ["calls supply graph inputs only (internal overrides and bound output names are outside this check; see known findings)"]


def derived_after_select_run_part(ctx):
    """A graph is RUN with a run-time select, then graphs are derived from it (bind / unbind) and run with the same select: the
    derived graph's own contract applies - all its required inputs are sufficient, each of them is necessary."""
    import warnings
    warnings.simplefilter("ignore")
    from hypergraph import Graph, SyncRunner
    from hypergraph.exceptions import MissingInputError
    from hypergraph.nodes import FunctionNode
    rng = ctx.rng
    n = 0
    for _ in range(ctx.n(6, 40)):
        def scale(x, factor):
            return x * factor

        def shift(scaled, offset):
            return scaled + offset
        g = Graph([FunctionNode(scale, name="scale", output_name="scaled"), FunctionNode(shift, name="shift", output_name="shifted")])
        sel = rng.choice(["scaled", ["scaled"], ["shifted"]])
        r = SyncRunner()
        r.run(g, {"x": 1, "factor": 2, "offset": 3}, select=sel)                       # fills whatever is remembered per selection
        b = g.bind(factor=10)
        u = b.unbind("factor")
        for label, G, omit_ok, omit_bad in (("bind(factor=10)", b, "factor", "x"), ("bind then unbind", u, None, "factor")):
            full = {"x": 1, "factor": 2, "offset": 3}
            need = {k: v for k, v in full.items() if k in G.inputs.required} if sel != ["shifted"] or True else full
            if sel in ("scaled", ["scaled"]):
                need.pop("offset", None)
            case = {"family": "derived_after_select_run", "derivation": label, "select": repr(sel)}
            try:
                r.run(G, dict(need), select=sel)
            except Exception as e:  # noqa: BLE001
                ctx.violation("oracle", f"{label}: all required inputs {sorted(need)} supplied (select={sel!r}), yet the call is rejected: {type(e).__name__}: {str(e)[:100]}", case=case)
            less = {k: v for k, v in need.items() if k != omit_bad}
            if omit_bad in need:
                try:
                    r.run(G, less, select=sel)
                    ctx.violation("oracle", f"{label}: required input {omit_bad!r} omitted but the call was accepted (select={sel!r})", case=case)
                except MissingInputError:
                    pass
                except Exception as e:  # noqa: BLE001
                    ctx.violation("oracle", f"{label}: omitting {omit_bad!r} raised {type(e).__name__} instead of MissingInputError", case=case)
            n += 2
    return n


def nested_two_entry_cycle_part(ctx):
    """A CYCLIC graph with k >= 2 entry points used as a node: the enclosing graph lists ONE entry point (the wrapper) whose
    parameters are the union of the inner ones.  C08: supplying the parameters of that listed entry point is accepted."""
    from hypergraph import END, Graph, SyncRunner
    from hypergraph.nodes import FunctionNode, RouteNode
    rng = ctx.rng
    n = 0
    for _ in range(ctx.n(4, 20)):
        k = rng.randint(2, 3)
        names = [f"w{i}" for i in range(k)]
        nodes = []
        for i in range(k):
            ns = {}
            exec(f"def c{i}({names[i]}):\n    return {names[i]} + 1\n", ns)  # noqa: S102 - fixed names
            nodes.append(FunctionNode(ns[f"c{i}"], name=f"c{i}", output_name=names[(i + 1) % k]))
        ns = {}
        exec(f"def gate({names[0]}):\n    return END if {names[0]} > 5 else 'c0'\n", {"END": END, **ns}, ns)  # noqa: S102
        nodes.append(RouteNode(ns["gate"], targets=["c0", END], name="gate"))
        rng.shuffle(nodes)
        inner = Graph(nodes, name="inner")
        outer = Graph([inner.as_node()])
        eps = dict(outer.inputs.entrypoints)
        case = {"family": "nested_two_entry_cycle", "k": k, "inner_entrypoints": {a: list(b) for a, b in inner.inputs.entrypoints.items()},
                "outer_entrypoints": {a: list(b) for a, b in eps.items()}}
        for ep, params in eps.items():
            vals = {p_: 1 for p_ in list(outer.inputs.required) + list(params)}
            n += 1
            try:
                SyncRunner().run(outer, vals)
            except Exception as e:  # noqa: BLE001
                ctx.violation("oracle", f"nested cycle: the enclosing graph lists entry point {ep!r} with parameters {list(params)}; supplying exactly those is rejected: "
                              f"{type(e).__name__}: {str(e).splitlines()[0][:90]}", case=case)
    return n


def nested_part(ctx, dist, nontrivial, batch, N, cases_dbg, i0):
    """The same contract for graphs that contain nested graphs (oracle only): bindings on inner graphs, wrapper inputs
    renamed after the wrapper object was already used, a selection that leaves the nested graph out of scope, and a
    sibling node sharing a parameter name with the inner graph."""
    from harness.props import c05
    rng = ctx.rng
    n_eval = 0
    for _ in range(ctx.n(120, 1500)):
        g0 = gen.gen_dag(rng, max_nodes=6, edge_defaults=0.0, emits=0.0)
        for n in g0["nodes"]:
            n["defaults"] = {}
        try:
            spec0 = real_spec(engine.real_input_spec(g0))
        except Exception:  # noqa: BLE001
            continue
        g0["bound"] = {x: 30 + k for k, x in enumerate(spec0["required"]) if rng.random() < 0.35}
        g, _info = c05.wrap_levels(rng, g0, rng.choice([1, 1, 2]))
        # a sibling that shares a (possibly inner-bound) parameter name with the nested graph
        inner_bound = [k for n in g["nodes"] if n["kind"] == "graph" for k in n["graph"].get("bound", {})]
        if inner_bound and rng.random() < 0.6:
            p = rng.choice(inner_bound)
            # (listed before or after the nested graph: the reported spec does not depend on the node order)
            g["nodes"].insert(rng.randint(0, len(g["nodes"])),
                              {"name": "sib", "kind": "func", "inputs": [p], "outputs": ["sib_out"], "emit": [], "wait_for": [], "defaults": {}, "fn": ["sym", "sib"]})
        ren = c05.rename_wrapper_inputs(rng, g) if rng.random() < 0.5 else {}
        g["bound"] = {ren.get(k, k): v for k, v in g.get("bound", {}).items()}
        outs = [o for nn in g["nodes"] for o in gen.iface(nn)[1]]
        has_sib = any(nn["name"] == "sib" for nn in g["nodes"])
        if has_sib and rng.random() < 0.5:
            # only the sibling is in scope: the nested graph that binds the shared name is not, so nothing supplies it any more
            g["selected"] = ["sib_out"]
        elif outs and rng.random() < 0.5:
            g["selected"] = rng.sample(outs, rng.randint(1, min(2, len(outs))))
        try:
            G = engine.real_input_spec(g)
        except Exception:  # noqa: BLE001
            continue
        spec = real_spec(G)
        case = {"graph": g}
        dist["nested"] = dist.get("nested", 0) + 1
        # MODEL: the input spec of a graph containing nested graphs (Nested.ng_spec: wrapper interface through the renames,
        # bindings of inner graphs merged under the wrapper's current names), when no selection narrows the scope
        if g.get("selected") is None:
            ci = i0 + 1000 + dist["nested"]
            try:
                pdl.coq_ngraph(N, g, lambda name, term, ty, ci=ci: batch.add_def(ci, name, term, ty), prefix="ng")
                names = lambda l: c_list([c_pos(N(x)) for x in l])  # noqa: E731
                real_t = (f"(mk_ispec {names(spec['required'])} {names(spec['optional'])} "
                          f"{c_list([c_pair(c_pos(N(k)), names(v)) for k, v in spec['entry'].items()])} {pdl.c_dictval(N, spec['bound'])})")
                batch.add(ci, 130, "spec_eqb", "ng_spec $ng", real_t)
                cases_dbg[ci] = {"graph": g, "reported": spec}
            except Exception as e:  # noqa: BLE001
                ctx.violation("harness", f"cannot describe the nested graph to the model: {e}", case=case)
        R, O = set(spec["required"]), set(spec["optional"])
        if R & O:
            ctx.violation("oracle", f"required and optional overlap: {sorted(R & O)}", case=case, observed=spec)
        for x in spec["bound"]:
            if x in R:
                ctx.violation("oracle", f"bound name {x!r} is reported as required", case=case, observed=spec)
        # the same description built with every wrapper object used (read, placed in a graph, executed) before it is renamed
        for touch in (False, True):
            h = copy.deepcopy(g)
            for n in h["nodes"]:
                if n["kind"] == "graph":
                    n["touch"] = touch
            try:
                sp = real_spec(engine.real_input_spec(h))
            except Exception as e:  # noqa: BLE001
                ctx.violation("oracle", f"the graph is accepted or rejected depending on whether its wrapper objects were used before being renamed: {e}", case={"graph": h})
                continue
            if (sorted(sp["required"]), sorted(sp["optional"])) != (sorted(spec["required"]), sorted(spec["optional"])) and h != g:
                ctx.violation("oracle", f"the reported spec depends on whether the wrapper objects were used before being renamed: "
                              f"{sp['required']}/{sp['optional']} vs {spec['required']}/{spec['optional']}", case={"graph": h}, observed=sp)
        inputs = {x: rng.randint(0, 3) for x in spec["required"]}
        runner = rng.choice(["sync", "async"])
        kind, obs = attempt(g, inputs, runner)
        n_eval += 1
        if kind != "accepted":
            ctx.violation("oracle", f"all required inputs supplied, yet the call is rejected: {obs.get('error_repr')}", case={"graph": g, "run": {"inputs": inputs}}, observed=spec)
        else:
            want = g.get("selected")
            if want is None:
                want = [o for nn in g["nodes"] for o in gen.iface(nn)[1]]
            missing = [o for o in want if o not in obs["values"]]
            if obs["status"] != "completed" or missing:
                ctx.violation("oracle", f"all required inputs supplied, but something else was needed: status {obs['status']}, requested outputs not produced: {missing} "
                              f"({obs.get('error_repr')})", case={"graph": g, "run": {"inputs": inputs}}, observed=spec)
        for x in spec["required"]:
            less = {k: v for k, v in inputs.items() if k != x}
            kind2, obs2 = attempt(g, less, runner)
            n_eval += 1
            if kind2 != "missing":
                ctx.violation("oracle", f"required input {x!r} omitted but the call was {kind2} ({obs2.get('error_repr')})",
                              case={"graph": g, "run": {"inputs": less, "omitted": x}}, observed=spec)
            if obs2["log"] or obs2.get("events") or obs2.get("shutdowns"):
                ctx.violation("oracle", f"rejected call (omitted {x!r}) still invoked {len(obs2['log'])} node function(s) / delivered {len(obs2.get('events', []))} event(s)",
                              case={"graph": g, "run": {"inputs": less, "omitted": x}})
        nontrivial.add(canon({"nested": g["nodes"], "b": g.get("bound"), "s": g.get("selected")}))
    return n_eval


def bound_output_part(ctx, dist):
    """bind() also accepts OUTPUT names (the producer is then bypassed).  Oracle only; see known finding F-g."""
    rng = ctx.rng
    n_eval = 0
    for _ in range(ctx.n(12, 150)):
        g = gen.gen_dag(rng, max_nodes=5, edge_defaults=0.0, emits=0.0)
        for n in g["nodes"]:
            n["defaults"] = {}
        outs = [o for n in g["nodes"] for o in n["outputs"]]
        consumed = {p for n in g["nodes"] for p in n["inputs"]}
        cands = [o for o in outs if o in consumed]
        if not cands:
            continue
        g["bound"] = {rng.choice(cands): 77}
        try:
            spec = real_spec(engine.real_input_spec(g))
        except Exception:  # noqa: BLE001
            continue
        dist["bound_output"] = dist.get("bound_output", 0) + 1
        inputs = {x: rng.randint(0, 3) for x in spec["required"]}
        kind, obs = attempt(g, inputs, "sync")
        n_eval += 1
        if kind != "accepted":
            ctx.violation("oracle", f"all required inputs supplied, yet the call is rejected: {obs.get('error_repr')}",
                          case={"graph": g, "run": {"inputs": inputs}}, observed=spec)
        for x in spec["required"]:
            less = {k: v for k, v in inputs.items() if k != x}
            kind2, obs2 = attempt(g, less, "sync")
            n_eval += 1
            if kind2 != "missing":
                ctx.violation("oracle", f"required input {x!r} omitted but the call was {kind2} ({obs2.get('error_repr')})",
                              case={"graph": g, "run": {"inputs": less, "omitted": x}}, observed=spec)
    return n_eval


def cycle_groups(g, entry):
    """Entry nodes grouped by cycle, computed independently of the implementation (networkx on the PDL's data edges)."""
    import networkx as nx
    D = nx.DiGraph()
    first = {}
    for n in g["nodes"]:
        D.add_node(n["name"])
        for o in pdl.node_outputs(n):
            first.setdefault(o, n["name"])
    for n in g["nodes"]:
        for p in n["inputs"]:
            if p in first:
                D.add_edge(first[p], n["name"])
    groups = []
    for scc in nx.strongly_connected_components(D):
        members = sorted(e for e in entry if e in scc)
        if members:
            groups.append(members)
    return sorted(groups)


def vres(kind):
    return {"accepted": "VOk", "missing": "VMissing", "valueerror": "VValueError"}.get(kind, "VValueError")
