"""C06 — renames are transparent.

REAL: nodes of all five kinds built through the public API, rename histories applied with
with_inputs/with_outputs (each call = one batch), then observed directly (inputs, outputs, defaults,
map_inputs_to_params, GraphNode default/bound lookup, map_over translation) and through real runs
(what the wrapped function / inner graph received, under which names results appear).
SPEC (codes < 100): positions never move: sigma/sigma_inv of coq/theories/Rename.v.
MODEL (codes >= 100): run_history, reverse_map, forward_map, map_inputs_to_params, defaults_current,
gn_resolve_original, gn_map_outputs, gn_original_params, follow_history.
"""
from __future__ import annotations

import asyncio
import warnings

from harness.common import CoqBatch, Names, c_list, c_pair, c_pos, c_Z, c_bool, canon

IN_POOL = ["a", "b", "c", "d", "e", "t1", "t2"]
OUT_POOL = ["u", "v", "w", "o1", "o2", "o3"]
KINDS = ["function", "route", "ifelse", "interrupt", "graphnode", "graphnode_map"]


# ---------------------------------------------------------------- generation


def gen_batch(rng, cur, valid=True, POOL=None):
    POOL = POOL or IN_POOL
    """One with_inputs/with_outputs call against current names `cur`."""
    if not cur:
        return {}
    style = rng.choice(["single", "perm", "fresh", "chain", "reuse"]) if valid else rng.choice(["unknown", "dup"])
    cur = list(cur)
    if style == "single":
        o = rng.choice(cur)
        n = rng.choice([p for p in POOL if p not in cur] or [o])
        return {o: n}
    if style == "perm":
        k = rng.randint(2, len(cur)) if len(cur) >= 2 else 1
        sel = rng.sample(cur, k)
        tgt = sel[1:] + sel[:1]
        return dict(zip(sel, tgt))
    if style == "fresh":
        k = rng.randint(1, len(cur))
        sel = rng.sample(cur, k)
        free = [p for p in POOL if p not in cur]
        rng.shuffle(free)
        return {o: free[i] for i, o in enumerate(sel) if i < len(free)}
    if style == "chain":
        # x->y while y->fresh in the same call
        if len(cur) < 2:
            return gen_batch(rng, cur, True, POOL) if rng.random() < 0.5 else {cur[0]: cur[0]}
        x, y = rng.sample(cur, 2)
        free = [p for p in POOL if p not in cur]
        if not free:
            return {x: y, y: x}
        return {x: y, y: rng.choice(free)}
    if style == "reuse":
        o = rng.choice(cur)
        return {o: rng.choice(POOL)} if rng.random() < 0.3 else {o: o}
    if style == "unknown":
        missing = [p for p in POOL if p not in cur]
        if not missing:
            return {"zz": "a"}
        return {rng.choice(missing): rng.choice(POOL)}
    if style == "dup":
        if len(cur) < 2:
            return {"zz": "a"}
        x, y = rng.sample(cur, 2)
        return {x: y}
    return {}


def sim(cur, batch):
    """Python's own trivial positional simulation, used only to steer generation."""
    if any(o not in cur for o in batch):
        return None
    new = [batch.get(v, v) for v in cur]
    if len(set(new)) != len(new):
        return None
    return new


def gen_case(rng, idx):
    kind = rng.choice(KINDS)
    n_in = rng.randint(1, 4)
    params = rng.sample(["a", "b", "c", "d", "e"], n_in)
    defaults = {p: 1000 + i for i, p in enumerate(params) if rng.random() < 0.35}
    if kind in ("route", "ifelse"):
        outs = []
    elif kind == "interrupt":
        outs = rng.sample(["u", "v", "w"], rng.choice([1, 1, 2, 3]))      # several outputs: the handler answers with a dict keyed by ITS names
    else:
        outs = rng.sample(["u", "v", "w", "o1"], rng.randint(1, 3))
    in_hist, out_hist = [], []
    cur = list(params)
    for _ in range(rng.randint(0, 5)):
        b = gen_batch(rng, cur, valid=rng.random() < 0.85)
        if not b:
            continue
        in_hist.append(b)
        nxt = sim(cur, b)
        if nxt is not None:
            cur = nxt
    curo = list(outs)
    if outs:
        for _ in range(rng.randint(0, 4)):
            b = gen_batch(rng, curo, valid=rng.random() < 0.85, POOL=OUT_POOL)
            if not b:
                continue
            out_hist.append(b)
            nxt = sim(curo, b)
            if nxt is not None:
                curo = nxt
    case = {"idx": idx, "touch": rng.random() < 0.5, "kind": kind, "params": params, "defaults": defaults, "outs": outs, "in_hist": in_hist, "out_hist": out_hist}
    if kind == "graphnode":
        case["inner_bound"] = {p: 2000 + i for i, p in enumerate(params) if p not in defaults and rng.random() < 0.25}
    if kind == "graphnode_map":
        case["inner_bound"] = {}
        k = rng.randint(1, min(2, n_in))
        case["map_over"] = rng.sample(params, k)
        rest = [p for p in params if p not in case["map_over"]]
        case["clone"] = rng.sample(rest, rng.randint(0, len(rest))) if rest and rng.random() < 0.5 else []
        case["map_at"] = rng.randint(0, len(in_hist))  # map_over applied after this many input batches
    return case


# ---------------------------------------------------------------- real side


def _mk_func(name, params, defaults, n_out, log, ret=None):
    sig = ", ".join(f"{p}={defaults[p]!r}" if p in defaults else p for p in params)
    src = f"def {name}(*, {sig}):\n" if params else f"def {name}():\n"
    src += f"    _log.append(({name!r}, dict({', '.join(f'{p}={p}' for p in params)})))\n"
    if ret is not None:
        src += f"    return {ret}\n"
    elif n_out == 0:
        src += "    return None\n"
    elif n_out == 1:
        src += "    return 500\n"
    else:
        src += f"    return tuple(500 + i for i in range({n_out}))\n"
    ns = {"_log": log}
    exec(src, ns)
    return ns[name]


def run_real(case):
    import hypergraph as hg
    from hypergraph import Graph, SyncRunner, AsyncRunner
    from hypergraph.nodes import FunctionNode, RouteNode, IfElseNode, InterruptNode
    from hypergraph.nodes._rename import RenameError

    log = []
    kind = case["kind"]
    params, defaults, outs = case["params"], case["defaults"], case["outs"]
    obs = {}
    extra_nodes = []
    if kind == "function":
        f = _mk_func("f", params, defaults, len(outs), log)
        node = FunctionNode(f, output_name=tuple(outs) if len(outs) > 1 else outs[0])
    elif kind == "route":
        f = _mk_func("f", params, defaults, 0, log, ret="'tgt'")
        node = RouteNode(f, targets=["tgt"])
        extra_nodes.append(FunctionNode(_mk_func("tgt", [], {}, 1, log), output_name="tgt_out"))
    elif kind == "ifelse":
        f = _mk_func("f", params, defaults, 0, log, ret="True")
        node = IfElseNode(f, when_true="tgt", when_false=hg.END)
        extra_nodes.append(FunctionNode(_mk_func("tgt", [], {}, 1, log), output_name="tgt_out"))
    elif kind == "interrupt":
        f = _mk_func("f", params, defaults, len(outs), log, ret="500" if len(outs) == 1 else "{" + ", ".join(f"{o!r}: {500+i}" for i, o in enumerate(outs)) + "}")
        node = InterruptNode(f, output_name=tuple(outs) if len(outs) > 1 else outs[0])
    else:
        f = _mk_func("f", params, defaults, len(outs), log)
        inner_fn = FunctionNode(f, output_name=tuple(outs) if len(outs) > 1 else outs[0])
        inner = Graph([inner_fn], name="inner")
        if case.get("inner_bound"):
            inner = inner.bind(**case["inner_bound"])
        node = inner.as_node()

    # the node's own initial tuples are the "originals" (a GraphNode orders its inputs required-first)
    obs["orig_in"], obs["orig_out"] = list(node.inputs), list(node.outputs)
    accepted_in, accepted_out = [], []
    in_batches = list(case["in_hist"])
    for bi, b in enumerate(in_batches):
        if kind == "graphnode_map" and case["map_at"] == bi:
            node = _apply_map_over(node, case, obs)
        if case.get("touch"):
            _touch(node, extra_nodes)
        try:
            node = node.with_inputs(dict(b))
            accepted_in.append(True)
        except RenameError:
            accepted_in.append(False)
    if kind == "graphnode_map" and case["map_at"] >= len(in_batches):
        node = _apply_map_over(node, case, obs)
    for b in case["out_hist"]:
        if case.get("touch"):
            _touch(node, extra_nodes)
        try:
            node = node.with_outputs(dict(b))
            accepted_out.append(True)
        except RenameError:
            accepted_out.append(False)
    obs["accepted_in"], obs["accepted_out"] = accepted_in, accepted_out
    obs["inputs"], obs["outputs"] = list(node.inputs), list(node.outputs)
    obs["map_inputs_to_params"] = dict(node.map_inputs_to_params({c: i for i, c in enumerate(node.inputs)}))
    if kind in ("graphnode", "graphnode_map"):
        dflt = {}
        for c in node.inputs:
            if node.has_default_for(c):
                dflt[c] = node.get_default_for(c)
        obs["defaults"] = dflt
        obs["map_outputs"] = dict(node.map_outputs_from_original({o: 700 + i for i, o in enumerate(outs)}))
        if kind == "graphnode_map":
            obs["map_over_cur"] = list(node._map_over)
            obs["map_over_orig"] = list(node._original_map_params())
            cl = node._clone
            obs["clone_cur"] = list(cl) if isinstance(cl, list) else []
            oc = node._original_clone()
            obs["clone_orig"] = list(oc) if isinstance(oc, list) else []
    else:
        obs["defaults"] = dict(node.defaults)

    # ---- behavioural run: every input addressed by its current name
    def do_run(omit_defaults):
        log.clear()
        vals = {}
        for i, c in enumerate(node.inputs):
            if omit_defaults and c in obs["defaults"] and c not in obs.get("map_over_cur", []):
                continue
            vals[c] = 100 + i
        if kind == "graphnode_map":
            for c in obs["map_over_cur"]:
                if c in vals:
                    vals[c] = [vals[c], vals[c] + 50]
        g = Graph([node] + extra_nodes)
        with warnings.catch_warnings():
            warnings.simplefilter("ignore")
            if kind == "interrupt":
                r = asyncio.run(AsyncRunner().run(g, vals))
            else:
                r = SyncRunner().run(g, vals)
        recv = [kw for (n, kw) in log if n == "f"]
        return {"status": r.status.value, "values": {k: v for k, v in r.values.items() if k != "tgt_out"}, "received": recv, "given": vals}

    try:
        obs["run_all"] = do_run(False)
    except Exception as e:  # noqa: BLE001
        obs["run_all"] = {"error": f"{type(e).__name__}: {e}"}
    try:
        obs["run_omit"] = do_run(True)
    except Exception as e:  # noqa: BLE001
        obs["run_omit"] = {"error": f"{type(e).__name__}: {e}"}
    return obs


def _touch(node, extra_nodes):
    """Use the node the way a program would between derivations (fills every cached property)."""
    from hypergraph import Graph

    for attr in ("defaults", "parameter_annotations", "definition_hash", "nx_attrs"):
        getattr(node, attr, None)
    for c in node.inputs:
        node.has_default_for(c)
        node.get_input_type(c)
    try:
        G = Graph([node] + extra_nodes)
        spec = G.inputs
        # ... and EXECUTE it once: some per-object caches are only filled by a run
        from hypergraph import SyncRunner
        vals = {x: 0 for x in spec.required}
        for ps in spec.entrypoints.values():
            for x in ps:
                vals[x] = 0
        import warnings as _w
        with _w.catch_warnings():
            _w.simplefilter("ignore")
            # mapped parameters want lists
            mo = set(getattr(node, "map_config", None)[0]) if getattr(node, "map_config", None) else set()
            SyncRunner().run(G, {k: ([v] if k in mo else v) for k, v in vals.items()}, error_handling="continue", max_iterations=8)
    except Exception:  # noqa: BLE001
        pass


def _apply_map_over(node, case, obs):
    # map_over is expressed in ORIGINAL names in the case; translate to the names current at this point
    cur = list(node.inputs)
    orig = obs["orig_in"]
    tr = dict(zip(orig, cur))
    mo = [tr[p] for p in case["map_over"]]
    cl = [tr[p] for p in case["clone"]]
    obs["map_pos"] = [orig.index(p) for p in case["map_over"]]
    obs["clone_pos"] = [orig.index(p) for p in case["clone"]]
    return node.map_over(*mo, clone=cl if cl else False)


# ---------------------------------------------------------------- emit checks


def emit(case, obs, batch: CoqBatch, N: Names):
    i = case["idx"]
    P = lambda s: c_pos(N(s))  # noqa: E731
    names = lambda l: c_list([P(s) for s in l])  # noqa: E731
    cbatch = lambda b: c_list([c_pair(P(o), P(n)) for o, n in b.items()])  # noqa: E731
    dz = lambda d: c_list([c_pair(P(k), c_Z(v)) for k, v in d.items()])  # noqa: E731
    orig_in, orig_out = names(obs["orig_in"]), names(obs["orig_out"])
    # histories: model skips rejected batches exactly as the real node stays unchanged
    hin = c_list([cbatch(b) for b in case["in_hist"]])
    hout = c_list([cbatch(b) for b in case["out_hist"]])
    acc_in = f"(accepted_hist {orig_in} {hin})"
    acc_out = f"(accepted_hist {orig_out} {hout})"
    cur_in, cur_out = names(obs["inputs"]), names(obs["outputs"])
    # 101/102: which batches are accepted (RenameError otherwise)
    batch.add(i, 101, "list_eqb Bool.eqb", f"accept_flags {orig_in} {hin}", c_list([c_bool(x) for x in obs["accepted_in"]]))
    batch.add(i, 102, "list_eqb Bool.eqb", f"accept_flags {orig_out} {hout}", c_list([c_bool(x) for x in obs["accepted_out"]]))
    # 103/104: resulting inputs / outputs
    batch.add(i, 103, "onames_eqb", f"run_history {orig_in} {acc_in}", f"Some {cur_in}")
    batch.add(i, 104, "onames_eqb", f"run_history {orig_out} {acc_out}", f"Some {cur_out}")
    # map_inputs_to_params on {cur_i: i}
    given = c_list([c_pair(P(c), c_Z(k)) for k, c in enumerate(obs["inputs"])])
    real_mip = dz(obs["map_inputs_to_params"])
    batch.add(i, 105, "dictZ_eqb", f"map_inputs_to_params {acc_in} {given}", real_mip)
    batch.add(i, 5, "dictZ_eqb", f"map (fun kv => (sigma_inv {orig_in} {cur_in} (fst kv), snd kv)) {given}", real_mip)
    # defaults follow
    real_d = dz(obs["defaults"])
    sig_d = dict(case["defaults"])
    for k, v in (case.get("inner_bound") or {}).items():
        sig_d[k] = v
    sd = dz(sig_d)
    batch.add(i, 106, "dictZ_eqb", f"defaults_current {acc_in} {sd}", real_d)
    batch.add(i, 6, "dictZ_eqb", f"map (fun kv => (sigma {orig_in} {cur_in} (fst kv), snd kv)) {sd}", real_d)
    if case["kind"] in ("graphnode", "graphnode_map"):
        inner_out = c_list([c_pair(P(o), c_Z(700 + k)) for k, o in enumerate(case["outs"])])  # keyed by inner names
        real_mo = dz(obs["map_outputs"])
        batch.add(i, 107, "dictZ_eqb", f"gn_map_outputs {acc_out} {cur_out} {inner_out}", real_mo)
        batch.add(i, 7, "dictZ_eqb", f"map (fun kv => (sigma {orig_out} {cur_out} (fst kv), snd kv)) {inner_out}", real_mo)
        # default lookup goes through gn_resolve_original
        batch.add(i, 108, "dictZ_eqb",
                  f"flat_map (fun c => match dget {sd} (gn_resolve_original {acc_in} c) with Some v => [(c, v)] | None => [] end) {cur_in}", real_d)
    if case["kind"] == "graphnode_map":
        mo_orig = names(case["map_over"])
        batch.add(i, 109, "names_eqb", f"gn_original_params {acc_in} {names(obs['map_over_cur'])}", names(obs["map_over_orig"]))
        batch.add(i, 9, "names_eqb", mo_orig, names(obs["map_over_orig"]))
        batch.add(i, 10, "names_eqb", f"map (sigma {orig_in} {cur_in}) {mo_orig}", names(obs["map_over_cur"]))
        batch.add(i, 11, "names_eqb", names(case["clone"]), names(obs["clone_orig"]))
        batch.add(i, 12, "names_eqb", f"map (sigma {orig_in} {cur_in}) {names(case['clone'])}", names(obs["clone_cur"]))


def run_oracle_python(case, obs):
    """The run-level oracle (what the function received / where results appear).  The expectation is
    positional (spec sigma); evaluated here because the observation is a Python call log."""
    bad = []
    params, outs = obs["orig_in"], obs["orig_out"]
    cur_in, cur_out = obs["inputs"], obs["outputs"]
    if len(cur_in) != len(params) or len(cur_out) != len(outs):
        return ["arity changed"]
    sig_d = dict(case["defaults"])
    sig_d.update(case.get("inner_bound") or {})
    for tag in ("run_all", "run_omit"):
        r = obs[tag]
        if "error" in r:
            bad.append(f"{tag}: run raised {r['error']}")
            continue
        if r["status"] != "completed":
            bad.append(f"{tag}: status {r['status']}")
            continue
        given = r["given"]
        if case["kind"] == "graphnode_map":
            mpos = obs["map_pos"]  # positions in orig_in
            variants = [0, 1]
        else:
            mpos, variants = [], [None]
        expected_calls = []
        for var in variants:
            kw = {}
            for k, p in enumerate(params):
                c = cur_in[k]
                if c in given:
                    v = given[c]
                    if k in mpos:
                        v = v[var]
                    kw[p] = v
                elif p in sig_d:
                    kw[p] = sig_d[p]
                else:
                    kw = None
                    break
            expected_calls.append(kw)
        if r["received"] != expected_calls:
            bad.append(f"{tag}: wrapped function received {r['received']}, expected {expected_calls}")
        fval = {o: (500 + j if len(case["outs"]) > 1 else 500) for j, o in enumerate(case["outs"])}  # by inner/original name
        if case["kind"] in ("route", "ifelse"):
            exp_vals = {}
        elif case["kind"] == "graphnode_map":
            exp_vals = {cur_out[j]: [fval[outs[j]]] * 2 for j in range(len(outs))}
        else:
            exp_vals = {cur_out[j]: fval[outs[j]] for j in range(len(outs))}
        if r["values"] != exp_vals:
            bad.append(f"{tag}: values {r['values']}, expected {exp_vals}")
    return bad


PREAMBLE = """
Definition accept_flags (orig : list name) (h : history) : list bool :=
  snd (fold_left (fun (st : list name * list bool) b =>
         match apply_batch (fst st) b with
         | Some c => (c, snd st ++ [true])
         | None => (fst st, snd st ++ [false]) end) h (orig, [])).
Definition accepted_hist (orig : list name) (h : history) : history :=
  snd (fold_left (fun (st : list name * history) b =>
         match apply_batch (fst st) b with
         | Some c => (c, snd st ++ [b])
         | None => st end) h (orig, [])).
"""


# ---------------------------------------------------------------- entry


def corpus_cases():
    return [
        {"idx": 0, "kind": "graphnode", "params": ["a", "b"], "defaults": {"b": 10}, "outs": ["u"], "in_hist": [{"a": "b", "b": "a"}], "out_hist": [], "inner_bound": {}},
        {"idx": 0, "kind": "graphnode", "params": ["a"], "defaults": {}, "outs": ["u"], "in_hist": [], "out_hist": [{"u": "v"}, {"v": "w"}, {"w": "v"}], "inner_bound": {}},
        {"idx": 0, "touch": True, "kind": "function", "params": ["a", "b", "c"], "defaults": {"c": 3}, "outs": ["u", "v"], "in_hist": [{"a": "b", "b": "a"}, {"c": "t1"}, {"t1": "c", "a": "t2"}], "out_hist": [{"u": "v", "v": "u"}]},
        {"idx": 0, "kind": "graphnode_map", "params": ["a", "b"], "defaults": {}, "outs": ["u"], "in_hist": [{"a": "b", "b": "a"}], "out_hist": [], "inner_bound": {}, "map_over": ["a"], "clone": ["b"], "map_at": 0},
    ]


def run(ctx):
    N = Names()
    n_cases = ctx.n(800, 6000)
    cases = corpus_cases() + [gen_case(ctx.rng, 0) for _ in range(n_cases)]
    batch = CoqBatch("C06", ["Base", "Rename", "CheckLib"], shard=400, preamble=PREAMBLE)
    seen, nontrivial = set(), set()
    dist = {"kinds": {}, "rejected_batches": 0, "batches": 0, "swaps": 0}
    all_obs = {}
    for idx, case in enumerate(cases):
        case["idx"] = idx
        try:
            obs = run_real(case)
        except Exception as e:  # noqa: BLE001
            ctx.violation("oracle", f"building / renaming / observing the node raised {type(e).__name__}: {e}", case=case)
            continue
        all_obs[idx] = obs
        emit(case, obs, batch, N)
        for msg in run_oracle_python(case, obs):
            ctx.violation("oracle", msg, case=case, observed={k: obs[k] for k in ("inputs", "outputs", "run_all", "run_omit")})
        key = canon({k: v for k, v in case.items() if k != "idx"})
        seen.add(key)
        nb = len(case["in_hist"]) + len(case["out_hist"])
        dist["kinds"][case["kind"]] = dist["kinds"].get(case["kind"], 0) + 1
        dist["batches"] += nb
        dist["rejected_batches"] += obs["accepted_in"].count(False) + obs["accepted_out"].count(False)
        perm = any(set(b.values()) & set(b.keys()) and any(k != v for k, v in b.items()) for b in case["in_hist"] + case["out_hist"])
        dist["swaps"] += int(perm)
        if nb >= 2 or perm:
            nontrivial.add(key)
    res = batch.run()
    if res["error"]:
        ctx.violation("harness", res["error"])
    for (ci, code, mv, real, mexp) in res["failed"]:
        kind = "oracle" if code < 100 else "correspondence"
        ctx.violation(kind, f"check {code}: implementation {real} vs {'spec' if code < 100 else 'model'} {mv}", case=cases[ci],
                      observed=all_obs.get(ci), expr=mexp)
    ctx.coverage.update(
        evaluations=len(cases),
        coq_checks=res["n"],
        distinct_nontrivial=len(nontrivial),
        rule="random rename histories (0-5 input and 0-4 output batches: single, permutation, fresh, chain-through-temp, re-use, plus "
             "15% invalid batches) over FunctionNode/RouteNode/IfElseNode/InterruptNode/GraphNode(+map_over); non-trivial = >=2 batches "
             "or a batch permuting live names; distinct by canonical JSON of the case",
        distribution=dist,
        samples=cases[4:7],
        traces_validated_against_impl=len(all_obs),
        disagreements_checked=res["n"],
    )
    ctx.assumptions += [
        "node functions are exec-generated keyword-only functions; inspect.signature is trusted",
        "RenameEntry batches: one with_inputs/with_outputs call = one batch (batch_id grouping is abstracted by the model)",
    ]
