"""C20 — the visualisation shows exactly the graph's structure in every expansion state.

GROUND TRUTH: the nested structure is read from the real Graph objects through the public API (Graph.nodes,
Graph.nx_graph, node.inputs/outputs/nested_graph, GraphNode rename resolution) and written as a Viz.tnode tree.
ORACLE (coq/theories/Viz.v, theorems in coq/props/C20.v):
  * Graph.to_flat_graph() against Viz.flatten_all / Viz.flat_edges (every nested node once, under its parent),
  * the state keys of render_graph(...)['meta'] against Viz.enum_states (exactly the valid states, both modes, nodes and edges),
  * build_expansion_state(depth) against Viz.state_of_depth,
  * EVERY drawing — nodesByState/edgesByState of every valid state x both output modes, and the parsed
    to_mermaid(depth=d) source for every depth x both modes — through the proved checker Viz.viz_problems
    (= [] <-> Faithful: declared-once ids, declared edge ends, visible nodes shown once, every dependency drawn between
    visible representatives, every edge justified by a dependency / graph input / END target / output).
"""
from __future__ import annotations

import copy
import re

from harness import gen, pdl
from harness.common import CoqBatch, Names, c_bool, c_pos, canon


def c_list(items):
    """`[ a; b ]` — with the spaces, because `[(` is a token once ZArith/Lia notations are loaded"""
    items = list(items)
    return "[ " + "; ".join(items) + " ]" if items else "[]"

LEVEL = "proof"
TRUSTED_BASE = [
    "viz/renderer/*.py and viz/mermaid.py are not modelled: each drawing they produce is validated by Viz.viz_problems, whose "
    "soundness and completeness w.r.t. the declarative predicate Faithful is theorem C20_checker",
    "the transcription of nodesByState/edgesByState entries and of Mermaid source lines into Viz.drawing literals (harness/props/c20.py)",
    "the ground-truth reader (Graph.nodes, Graph.nx_graph, GraphNode._resolve_original_input_name / map_outputs_from_original); the data edges from "
    "the FURTHER producers of a shared output name are added inside the model (VizProducers.complete_forest), name-matched graphs only",
]

# --------------------------------------------------------------------------- generation


def _strip_defaults(g):
    for n in g["nodes"]:
        if n["kind"] == "graph":
            _strip_defaults(n["graph"])
        else:
            n["defaults"] = {}


def _gate_targets(n):
    if n["kind"] == "ifelse":
        return [n["when_true"], n["when_false"]]
    if n["kind"] == "route":
        return list(n["targets"])
    return []


def closed_subset(rng, g):
    """A group of nodes that can be wrapped into a nested graph: dependency-closed (convex), and closed under
    gate -> target and emit -> wait_for (those relations are only legal inside one graph)."""
    import networkx as nx
    S = set(gen.convex_subset(rng, g, min_size=1))
    D = gen._data_graph(g)
    changed = True
    while changed:
        changed = False
        for n in g["nodes"]:
            ts = [t for t in _gate_targets(n) if t != "END"]
            if n["name"] in S:
                for t in ts:
                    if t not in S:
                        S.add(t)
                        changed = True
            elif any(t in S for t in ts):
                S.add(n["name"])
                changed = True
        desc = set().union(*[nx.descendants(D, s) for s in S]) if S else set()
        anc = set().union(*[nx.ancestors(D, s) for s in S]) if S else set()
        mid = (desc & anc) - S
        if mid:
            S |= mid
            changed = True
    return [n["name"] for n in g["nodes"] if n["name"] in S]


def cur_iface(n):
    """(inner names, current names) of the inputs and of the outputs of a PDL node, renames applied at every level."""
    if n["kind"] != "graph":
        i = list(n["inputs"]) + list(n.get("wait_for", []))
        o = list(n.get("outputs", [])) + list(n.get("emit", []))
        return (i, i), (o, o)
    ins, outs = [], []
    for m in n["graph"]["nodes"]:
        (_, ci), (_, co) = cur_iface(m)
        ins += ci
        outs += co
    outs = list(dict.fromkeys(outs))
    free = [p for p in dict.fromkeys(ins) if p not in outs]
    return (free, _current(free, n.get("in_hist", []))), (outs, _current(outs, n.get("out_hist", [])))


def _rename_inside(inner, old, new):
    """Rename the data value `old` to `new` everywhere inside a PDL graph (leaf inputs/outputs; nested wrappers get a
    with_inputs / with_outputs batch so that they expose the new name)."""
    for n in inner["nodes"]:
        if n["kind"] == "graph":
            (_, cur_in), (_, cur_out) = cur_iface(n)
            if old in cur_in:
                n.setdefault("in_hist", []).append({old: new})
            if old in cur_out:
                n.setdefault("out_hist", []).append({old: new})
        else:
            n["inputs"] = [new if p == old else p for p in n["inputs"]]
            n["outputs"] = [new if p == old else p for p in n["outputs"]]


def _current(names, hist):
    cur = list(names)
    for b in hist:
        b = dict(b)
        cur = [b.get(x, x) for x in cur]
    return cur


def rename_boundary(rng, g, counter):
    """Give some values that cross a wrapper's boundary a different name inside: the inner graph uses v_i, the wrapper
    maps it back with with_inputs / with_outputs, so the outer graph is unchanged."""
    done = 0
    for n in g["nodes"]:
        if n["kind"] != "graph":
            continue
        done += rename_boundary(rng, n["graph"], counter)
        (ins, cur_in), (outs, cur_out) = cur_iface(n)
        for v in list(dict.fromkeys(cur_in + cur_out)):
            if v.startswith("sig") or v == "done" or rng.random() > 0.45:
                continue
            counter[0] += 1
            vi = f"{v}_i{counter[0]}"
            # the wrapper currently exposes `v`; rename it inside, then map the wrapper's name back
            inner_names_in = {c: o for o, c in zip(ins, cur_in)}
            inner_names_out = {c: o for o, c in zip(outs, cur_out)}
            orig = inner_names_in.get(v, inner_names_out.get(v))
            if orig is None or (v in cur_in and v in cur_out and inner_names_in.get(v) != inner_names_out.get(v)):
                continue
            _rename_inside(n["graph"], orig, vi)
            if v in cur_in:
                n["in_hist"] = [{(vi if k == orig else k): val for k, val in dict(b).items()} for b in n.get("in_hist", [])]
                if orig == v:
                    n.setdefault("in_hist", []).append({vi: v})
            if v in cur_out:
                n["out_hist"] = [{(vi if k == orig else k): val for k, val in dict(b).items()} for b in n.get("out_hist", [])]
                if orig == v:
                    n.setdefault("out_hist", []).append({vi: v})
            done += 1
    return done


def prefix_names(rng, g):
    """Give some containers names that extend a sibling's name ("n3" next to "n3_x"): hierarchical ids must be compared
    component-wise, never as string prefixes."""
    for n in g["nodes"]:
        if n["kind"] == "graph":
            prefix_names(rng, n["graph"])
    sibs = [n["name"] for n in g["nodes"]]
    for n in g["nodes"]:
        if n["kind"] == "graph" and rng.random() < 0.6:
            others = [x for x in sibs if x != n["name"] and not x.startswith(n["name"])]
            if not others:
                continue
            new = rng.choice(others) + "_x"
            if new in sibs:
                continue
            old = n["name"]
            n["name"] = new
            sibs[sibs.index(old)] = new
            for m in g["nodes"]:
                if m["kind"] == "ifelse":
                    m["when_true"] = new if m["when_true"] == old else m["when_true"]
                    m["when_false"] = new if m["when_false"] == old else m["when_false"]
                elif m["kind"] == "route":
                    m["targets"] = [new if t == old else t for t in m["targets"]]
                    if m["fn"][0] == "gtable":
                        def sub(d):
                            if isinstance(d, list):
                                return [new if t == old else t for t in d]
                            return new if d == old else d
                        m["fn"] = ["gtable", [[k, sub(d)] for k, d in m["fn"][1]], sub(m["fn"][2])]
                    if m.get("fallback") == old:
                        m["fallback"] = new


def gen_shared(rng):
    """Several producers of ONE output name: exclusive branches of an if/else or a route (all producing `w`, consumed downstream),
    or an ordered second writer (P1 -> v and a signal, P2 waits for the signal and writes v again), in every node order."""
    def F(name, ins, outs, emit=(), wait=()):
        return {"name": name, "kind": "func", "inputs": list(ins), "outputs": list(outs), "emit": list(emit), "wait_for": list(wait), "defaults": {}, "fn": ["sym", name]}
    nodes = []
    if rng.random() < 0.25:
        # two nested graphs with the SAME inner definition (node for node) as the exclusive branches of a gate
        def pipeline(nm):
            inner = [F("scale", ["x0"], ["scaled"]), F("shift", ["scaled"] + (["x1"] if two_in else []), ["shifted"])]
            rng.shuffle(inner)
            return {"name": nm, "kind": "graph", "graph": {"nodes": inner, "bound": {}, "entrypoints": None, "selected": None, "name": "pipeline"},
                    "inputs": [], "outputs": [], "in_hist": [], "out_hist": []}
        two_in = rng.random() < 0.5
        st = rng.getstate()
        first = pipeline("first")
        rng.setstate(st)
        second = pipeline("second")          # same inner node order as the first copy
        nodes = [{"name": "g0", "kind": "ifelse", "inputs": ["c0"], "outputs": [], "emit": [], "wait_for": [], "defaults": {},
                  "fn": ["glt", 1], "when_true": "first", "when_false": "second", "default_open": False},
                 first, second, F("use", ["shifted"], ["z"])]
        rng.shuffle(nodes)
        ext = ["c0", "x0", "x1"]
        return {"nodes": nodes, "bound": {}, "entrypoints": None, "selected": None, "ext": ext, "int_valued": list(ext)}
    if rng.random() < 0.7:
        k = rng.choice([2, 2, 3])
        br = [f"b{i}" for i in range(k)]
        if k == 2 and rng.random() < 0.6:
            nodes.append({"name": "g0", "kind": "ifelse", "inputs": ["c0"], "outputs": [], "emit": [], "wait_for": [], "defaults": {},
                          "fn": ["glt", 1], "when_true": br[0], "when_false": br[1], "default_open": False})
        else:
            nodes.append({"name": "g0", "kind": "route", "inputs": ["c0"], "outputs": [], "emit": [], "wait_for": [], "defaults": {},
                          "fn": ["gtable", [[i, b] for i, b in enumerate(br)], br[0]], "targets": list(br), "multi": False, "fallback": None, "default_open": False})
        for i, b in enumerate(br):
            nodes.append(F(b, [rng.choice(["x0", "x1"])], ["w"] + ([f"own{i}"] if rng.random() < 0.4 else [])))
        nodes.append(F("use", ["w"] + (["x1"] if rng.random() < 0.5 else []), ["z"]))
        if rng.random() < 0.5:
            nodes.append(F("use2", ["w", "z"], ["z2"]))
        ext = ["c0", "x0", "x1"]
    else:
        nodes.append(F("p1", ["x0"], ["v"], emit=["s1"]))
        nodes.append(F("p2", ["x1"], ["v"], wait=["s1"]))
        nodes.append(F("cons", ["v"], ["z"]))
        if rng.random() < 0.5:
            nodes.append(F("cons2", ["v", "z"], ["z2"]))
        ext = ["x0", "x1"]
    rng.shuffle(nodes)
    return {"nodes": nodes, "bound": {}, "entrypoints": None, "selected": None, "ext": ext, "int_valued": list(ext)}


def gen_case(rng, family, renames):
    if family == "shared":
        g = gen_shared(rng)
    elif family in ("dag", "gated", "emit", "endgates"):
        g = gen.gen_dag(rng, max_nodes=7, emits=0.45 if family == "emit" else 0.0, edge_defaults=0.0)
        if family == "gated" or (family == "emit" and rng.random() < 0.3):
            g = gen.add_gates(rng, g)
        if family == "endgates":
            # several gates that may route to END, so that nesting can hide one of them and leave another visible
            g = gen.add_gates(rng, g, n_gates=rng.randint(2, 3))
            for n in g["nodes"]:
                if n["kind"] == "ifelse" and "END" not in (n["when_true"], n["when_false"]):
                    n["when_false"] = "END"
                elif n["kind"] == "route" and "END" not in n["targets"]:
                    n["targets"] = list(n["targets"]) + ["END"]
    else:
        g, _ = gen.gen_program(rng, family)
        if rng.random() < 0.6:
            outs = [o for n in g["nodes"] for o in n["outputs"]] or ["zz"]
            g["nodes"].append({"name": "post", "kind": "func", "inputs": [rng.choice(outs), "pz"], "outputs": ["pout"],
                               "emit": [], "wait_for": [], "defaults": {}, "fn": ["sym", "post"]})
    _strip_defaults(g)
    counter = [0]

    def nest_rec(g, d):
        if d == 0 or counter[0] >= 6:
            return g
        S = closed_subset(rng, g)
        if not S:
            return g
        counter[0] += 1
        nm = f"w{counter[0]}"
        g2 = gen.nest(rng, g, S, nm)
        for n in g2["nodes"]:
            if n["kind"] == "graph" and n["name"] == nm:
                n["graph"] = nest_rec(n["graph"], d - 1)
        if rng.random() < 0.45:
            g2 = nest_rec(g2, 1)
        return g2

    depth = rng.choice([0, 1, 1, 2, 2, 3, 3])
    g2 = nest_rec(g, depth)
    if pdl.graph_depth(g2) > 4:      # nesting depth 0..3
        g2 = g
    if rng.random() < 0.3:
        prefix_names(rng, g2)
    if not renames and family != "shared" and rng.random() < 0.08:     # (kept apart from the shared-name family: one finding per drawing)
        # a top-level node whose NAME spells the hierarchical id of a nested node the way Mermaid writes it ("w1__b" next to w1/b)
        conts = [n for n in g2["nodes"] if n["kind"] == "graph" and n["graph"]["nodes"]]
        outs = [o for n in g2["nodes"] for o in gen.iface(n)[1]]
        if conts and outs:
            c = rng.choice(conts)
            nm = f"{c['name']}__{rng.choice(c['graph']['nodes'])['name']}"
            if nm not in [n["name"] for n in g2["nodes"]]:
                g2["nodes"].append({"name": nm, "kind": "func", "inputs": [rng.choice(outs)], "outputs": [nm + "_o"], "emit": [], "wait_for": [], "defaults": {},
                                    "fn": ["sym", nm]})
    if rng.random() < 0.4:
        # some external inputs bound on the top-level graph (drawn as inputs all the same, next to unbound ones)
        produced = {o for n in g2["nodes"] for o in gen.iface(n)[1]}
        ext = sorted({p for n in g2["nodes"] for p in gen.iface(n)[0]} - produced)
        b = {x: 7 for x in ext if rng.random() < 0.5}
        if b:
            g2["bound"] = dict(g2.get("bound", {}), **b)
    if renames:
        g3 = copy.deepcopy(g2)
        n_ren = rename_boundary(rng, g3, [0])
        if n_ren:
            return g2, g3, n_ren
    return g2, None, 0


# --------------------------------------------------------------------------- ground truth


def truth(G, prefix=()):
    """The nested structure as the public API of the real objects shows it."""
    out = []
    for name, n in G.nodes.items():
        inner = n.nested_graph
        ent = {"name": name, "path": prefix + (name,), "inputs": list(n.inputs), "outputs": list(n.outputs), "isg": inner is not None,
               "inmap": {}, "outmap": {}, "children": [], "edges": [], "hend": False}
        if inner is not None:
            ent["children"], ent["edges"] = truth(inner, prefix + (name,))
            ent["inmap"] = {p: n._resolve_original_input_name(p) for p in n.inputs}
            inner_outs = inner.outputs if inner.selected is None else inner.selected
            for o in inner_outs:
                for k in n.map_outputs_from_original({o: 1}):
                    ent["outmap"][k] = o
        bd = getattr(n, "branch_data", None)
        if bd:
            tg = bd.get("targets")
            tv = list(tg.values()) if isinstance(tg, dict) else list(tg or [])
            ent["hend"] = bd.get("when_true") == "END" or bd.get("when_false") == "END" or "END" in tv
        out.append(ent)
    edges = [(u, v, d.get("edge_type", "data"), list(d.get("value_names") or [])) for u, v, d in G.nx_graph.edges(data=True)]
    # (Graph.nx_graph draws a shared output name from its FIRST producer only; the further producers' edges are added by the
    #  model itself: VizProducers.complete_forest / complete_level, theorems C20_every_producer_has_an_edge / C20_only_matches_added)
    return out, edges


KIND = {"data": "KData", "control": "KControl", "ordering": "KOrdering"}


def c_nid(N, path):
    return c_list([c_pos(N(x)) for x in path])


def c_names(N, xs):
    return c_list([c_pos(N(x)) for x in xs])


def c_edge(N, e):
    u, v, k, vals = e
    return f"({c_pos(N(u))}, {c_pos(N(v))}, {KIND[k]}, {c_names(N, vals)})"


def c_map(N, m):
    return c_list([f"({c_pos(N(a))}, {c_pos(N(b))})" for a, b in m.items() if a != b])


def c_tnode(N, t):
    return (f"(TN {c_pos(N(t['name']))} {c_bool(t['isg'])} {c_names(N, t['inputs'])} {c_names(N, t['outputs'])} {c_map(N, t['inmap'])} "
            f"{c_map(N, t['outmap'])} {c_bool(t['hend'])} {c_list([c_tnode(N, c) for c in t['children']])} {c_list([c_edge(N, e) for e in t['edges']])})")


def flat_truth(nodes, acc=None):
    acc = acc if acc is not None else {}
    for n in nodes:
        acc["/".join(n["path"])] = n
        flat_truth(n["children"], acc)
    return acc


def c_state(N, st):
    return c_list([f"({c_nid(N, k.split('/'))}, {c_bool(v)})" for k, v in sorted(st.items())])


def parse_key(key):
    parts = key.split("|")
    sep = parts[-1] == "sep:1"
    st = {}
    if len(parts) == 2:
        for kv in parts[0].split(","):
            a, b = kv.rsplit(":", 1)
            st[a] = b == "1"
    return st, sep


# --------------------------------------------------------------------------- drawings


ETY = {"input": "TInput", "data": "TData", "control": "TControl", "ordering": "TOrdering", "end": "TEnd", "output": "TOutput"}


def c_drawing(N, K, dnodes, dedges):
    """dnodes: [(key string, kind tuple, hidden)], dedges: [(src key, tgt key, etype)]"""
    def kind(k):
        if k[0] == "real":
            return f"(DReal {c_nid(N, k[1])})"
        if k[0] == "data":
            return f"(DData {c_nid(N, k[1])} {c_pos(N(k[2]))})"
        if k[0] == "input":
            return f"(DInput {c_names(N, k[1])})"
        return "DEnd"
    ns = c_list([f"{{| d_key := {c_pos(K(i))}; d_kind := {kind(k)}; d_hidden := {c_bool(h)} |}}" for i, k, h in dnodes])
    es = c_list([f"{{| e_src := {c_pos(K(s))}; e_tgt := {c_pos(K(t))}; e_ty := {ty} |}}" for s, t, ty in dedges])
    return f"{{| dnodes := {ns}; dedges := {es} |}}"


def interactive_drawing(nodes, edges):
    dn, de = [], []
    for n in nodes:
        d = n.get("data", {})
        nt = d.get("nodeType")
        if nt == "DATA":
            k = ("data", tuple(str(d.get("sourceId", "")).split("/")), d.get("label", ""))
        elif nt == "INPUT":
            k = ("input", [d.get("label", "")])
        elif nt == "INPUT_GROUP":
            k = ("input", list(d.get("params", [])))
        elif nt == "END":
            k = ("end",)
        else:
            k = ("real", tuple(n["id"].split("/")))
        dn.append((n["id"], k, bool(n.get("hidden"))))
    for e in edges:
        de.append((e["source"], e["target"], ETY.get(e.get("data", {}).get("edgeType"), "TData")))
    return dn, de


EDGE_RE = re.compile(r"^\s*([A-Za-z0-9_]+)\s+(-->|-\.->)(?:\|([^|]*)\|)?\s+([A-Za-z0-9_]+)\s*$")
NODE_RE = re.compile(r'^\s*([A-Za-z0-9_]+)(\(\["|\[\["|\{\{"|\[/"|\[")(.*?)("\]\)|"\]\]|"\}\}|"/\]|"\])\s*$')
SUB_RE = re.compile(r'^\s*subgraph\s+([A-Za-z0-9_]+)\s*\["(.*)"\]\s*$')


def san(i):
    return i.replace("/", "__")


def mermaid_drawing(src, T):
    """Parse a Mermaid flowchart into (dnodes, dedges); every line must be understood."""
    real = {san(i): tuple(i.split("/")) for i in T}
    data = {san(f"data_{i}_{o}"): (tuple(i.split("/")), o) for i in T for o in T[i]["outputs"]}
    dn, de = [], []
    kinds = {}
    for line in src.splitlines():
        s = line.strip()
        if not s or s.startswith(("classDef", "class ", "linkStyle", "%%", "flowchart")) or s == "end":
            continue
        m = EDGE_RE.match(line)
        if m:
            de.append((m.group(1), m.group(4), m.group(2)))
            continue
        m = SUB_RE.match(line)
        if m:
            i = m.group(1)
            k = ("real", real.get(i, (i,)))
            kinds[i] = k
            dn.append((i, k, False))
            continue
        m = NODE_RE.match(line)
        if m:
            i, shape, label = m.group(1), m.group(2), m.group(3)
            if i == "__end__" and shape == '(["':
                k = ("end",)
            elif shape == '(["' and i.startswith("input_"):
                k = ("input", label.split("<br/>"))
            elif shape == '[/"' and i in data:
                k = ("data", data[i][0], data[i][1])
            elif shape == '[/"':
                k = ("data", ("?",), label)
            else:
                k = ("real", real.get(i, (i,)))
            kinds.setdefault(i, k)
            dn.append((i, k, False))
            continue
        raise ValueError("unparsed Mermaid line: " + line)
    edges = []
    for s, t, arrow in de:
        if kinds.get(s, ("?",))[0] == "input":
            ty = "TInput"
        elif kinds.get(t, ("?",))[0] == "end":
            ty = "TEnd"
        elif arrow == "-.->":
            ty = "TOrdering"
        else:
            ty = "TSolid"
        edges.append((s, t, ty))
    return dn, edges


# --------------------------------------------------------------------------- problems -> text

PROBLEM_RE = re.compile(r"\((\d+)(?:%nat)?, \[([^\]]*)\], \[([^\]]*)\], (\d+)%positive, (\d+)%positive\)")
CODES = {1: "an id is declared twice", 2: "a node is not shown exactly once / shown although hidden in this state",
         3: "an edge end is not a declared node of this state", 4: "a dependency is not drawn between visible representatives",
         5: "an edge is drawn that corresponds to no dependency", 6: "a visible gate's END edge is missing",
         7: "a consumer of a graph input gets no input edge",
         14: "a dependency through a renamed container input/output is not drawn between visible representatives",
         15: "an edge is drawn that corresponds to no dependency (it would, were values matched by name across renamed container boundaries)"}


def parse_problems(text, N, K):
    out = []
    for m in PROBLEM_RE.finditer(text or ""):
        code = int(m.group(1))
        def path(s):
            return "/".join(N.bwd.get(int(x.replace("%positive", "").strip()), "?") for x in s.split(";") if x.strip())
        x, y = int(m.group(4)), int(m.group(5))
        if code in (3, 5, 15):
            name = f"{K.bwd.get(x)} -> {K.bwd.get(y)}"
        else:
            name = N.bwd.get(x)
        out.append({"code": code, "what": CODES.get(code, "?"), "a": path(m.group(2)), "b": path(m.group(3)), "name": name})
    return out


# --------------------------------------------------------------------------- the check


def observe(g):
    """Everything the real code shows for one graph: ground truth, flat graph, all drawings."""
    from hypergraph.viz._common import build_expansion_state, get_expandable_nodes
    from hypergraph.viz.mermaid import to_mermaid
    from hypergraph.viz.renderer import render_graph

    G = pdl.build_graph(g, {"_log": []})
    tn, te = truth(G)
    T = flat_truth(tn)
    flat = G.to_flat_graph()
    fnodes = []
    for nid, a in flat.nodes(data=True):
        bd = a.get("branch_data") or {}
        tg = bd.get("targets")
        tv = list(tg.values()) if isinstance(tg, dict) else list(tg or [])
        fnodes.append({"id": nid, "parent": a.get("parent"), "isg": a.get("node_type") == "GRAPH", "inputs": list(a.get("inputs", ())),
                       "outputs": list(a.get("outputs", ())),
                       "hend": bd.get("when_true") == "END" or bd.get("when_false") == "END" or "END" in tv})
    fedges = [(u, v, d.get("edge_type", "data"), list(d.get("value_names") or [])) for u, v, d in flat.edges(data=True)]
    spec = G.inputs
    ext = list(spec.required) + list(spec.optional)
    r = render_graph(flat, depth=0)
    meta = r["meta"]
    expandable = get_expandable_nodes(flat)
    maxd = max([i.count("/") for i in T] + [0])
    mer = {}
    for depth in range(0, maxd + 2):
        st = build_expansion_state(flat, depth)
        for sep in (False, True):
            mer[(depth, sep)] = (dict(st), str(to_mermaid(flat, depth=depth, separate_outputs=sep)))
    from hypergraph.viz._common import build_output_to_producer_map, build_param_to_consumer_map
    maps = [({}, True, build_param_to_consumer_map(flat, {}, use_deepest=True), build_output_to_producer_map(flat, {}, use_deepest=True))]
    if meta.get("param_to_consumer") != maps[0][2] or meta.get("output_to_producer") != maps[0][3]:
        maps.append(({}, True, meta.get("param_to_consumer"), meta.get("output_to_producer")))
    for key in meta["edgesByState"]:
        stt, sep = parse_key(key)
        if not sep:
            maps.append((stt, False, build_param_to_consumer_map(flat, stt), build_output_to_producer_map(flat, stt)))
    return {"tn": tn, "te": te, "T": T, "fnodes": fnodes, "fedges": fedges, "ext": ext, "maps": maps, "nodesByState": meta["nodesByState"],
            "edgesByState": meta["edgesByState"], "expandable": expandable, "mermaid": mer, "depth": maxd}


def emit_case(batch, i, g, ob):
    N, K = Names(), Names()
    T = ob["T"]
    batch.add_def(i, "ts0", c_list([c_tnode(N, t) for t in ob["tn"]]), "list tnode")
    batch.add_def(i, "es0", c_list([c_edge(N, e) for e in ob["te"]]), "list tedge")
    batch.add_def(i, "ts", "complete_forest $ts0", "list tnode")
    batch.add_def(i, "es", "complete_level $ts0 $es0", "list tedge")
    batch.add_def(i, "ext", c_names(N, ob["ext"]), "list name")
    batch.add_def(i, "xp", c_list([c_nid(N, x.split("/")) for x in ob["expandable"]]), "list nid")
    # 10: to_flat_graph lists every nested node once, under its parent, in construction order
    fl = c_list([
        f"{{| f_id := {c_nid(N, f['id'].split('/'))}; f_parent := {('Some ' + c_nid(N, f['parent'].split('/'))) if f['parent'] else 'None'}; "
        f"f_isg := {c_bool(f['isg'])}; f_ins := {c_names(N, f['inputs'])}; f_outs := {c_names(N, f['outputs'])}; f_end := {c_bool(f['hend'])} |}}"
        for f in ob["fnodes"]])
    batch.add(i, 10, "fnodes_eqb", "flatten_all $ts", fl)
    fe = c_list([f"({c_nid(N, u.split('/'))}, {c_nid(N, v.split('/'))}, {KIND[k]}, {c_names(N, vals)})" for u, v, k, vals in ob["fedges"]])
    batch.add(i, 11, "fedges_eqb", "flat_edges $ts $es", fe)
    # 12: exactly the valid expansion states, for nodes and for edges, in both modes
    keys = sorted(ob["edgesByState"].keys())
    states = {}
    for k in keys:
        st, sep = parse_key(k)
        states.setdefault(canon(st), [st, set()])[1].add(sep)
    batch.add(i, 12, "xstates_eqb", "enum_states $xp", c_list([c_state(N, v[0]) for v in states.values()]))
    meta = {"keys_match": sorted(ob["nodesByState"].keys()) == keys, "both_modes": all(v[1] == {False, True} for v in states.values())}
    # 13: build_expansion_state(depth)
    for (depth, sep), (st, _src) in ob["mermaid"].items():
        if not sep:
            batch.add(i, 13, "xstate_eqb", f"state_of_depth {depth}%nat $xp", c_list([f"({c_nid(N, x.split('/'))}, {c_bool(st.get(x, False))})" for x in ob["expandable"]]))
    # 14 / 15: the consumer and producer maps by visibility (viz/_common.py) against VizMaps.consumers / producer
    for (stt, deepest, p2c, o2p) in ob["maps"]:
        real_c = c_list([f"({c_pos(N(p))}, {c_list([c_nid(N, c.split('/')) for c in cs])})" for p, cs in (p2c or {}).items()])
        real_p = c_list([f"({c_pos(N(o))}, {c_nid(N, n.split('/'))})" for o, n in (o2p or {}).items()])
        batch.add(i, 14, "Bool.eqb", f"consumer_map_ok (flatten_all $ts) {c_state(N, stt)} {c_bool(deepest)} {real_c}", "true")
        batch.add(i, 15, "Bool.eqb", f"producer_map_ok (flatten_all $ts) {c_state(N, stt)} {c_bool(deepest)} {real_p}", "true")
    # 1: every interactive drawing
    tags = {}
    for k in keys:
        st, sep = parse_key(k)
        dn, de = interactive_drawing(ob["nodesByState"].get(k, []), ob["edgesByState"][k])
        mode = f"{{| separate := {c_bool(sep)}; inputs_complete := true |}}"
        j = len(batch.checks)
        batch.add(i, 1, "no_problems", f"viz_problems {mode} $ts $es $ext {c_state(N, st)} {c_drawing(N, K, dn, de)}", "[]")
        tags[j] = ("interactive", k)
    # 2: every Mermaid drawing
    for (depth, sep), (st, src) in ob["mermaid"].items():
        try:
            dn, de = mermaid_drawing(src, T)
        except ValueError as e:
            meta.setdefault("mermaid_unparsed", []).append(str(e))
            continue
        mode = f"{{| separate := {c_bool(sep)}; inputs_complete := false |}}"
        j = len(batch.checks)
        batch.add(i, 2, "no_problems", f"viz_problems {mode} $ts $es $ext {c_state(N, st)} {c_drawing(N, K, dn, de)}", "[]")
        tags[j] = ("mermaid", f"depth={depth} sep={int(sep)}")
    return N, K, tags, meta


FAMILIES = ["dag", "dag", "gated", "gated", "endgates", "emit", "loop", "loop_sync", "cyc", "twocyc", "shared"]


def hidden_node_part(ctx):
    """Nodes created with hide=True (left out of the drawing): the self-consistency clause still holds in every state and output
    mode - every edge endpoint of the interactive data is a declared node of that state, and in Mermaid every edge endpoint is a
    declared id.  (The faithfulness checker does not model hidden nodes; only this clause is decided for them.)"""
    import re
    from hypergraph import Graph
    from hypergraph.nodes import FunctionNode
    from hypergraph.viz.renderer import render_graph
    rng = ctx.rng

    def mk(name, ins, out, hide):
        ns = {}
        exec(f"def {name}({', '.join(ins)}):\n    return 0\n", ns)  # noqa: S102 - fixed names
        return FunctionNode(ns[name], name=name, output_name=out, hide=hide)
    n = 0
    for _ in range(ctx.n(12, 80)):
        k = rng.randint(2, 4)
        hidden = {i for i in range(k) if rng.random() < 0.4} or {rng.randrange(k)}
        extra = {i for i in range(k) if rng.random() < 0.5}          # nodes that also read a graph input of their own
        ns = [mk(f"h{i}", ([f"v{i - 1}"] if i else ["x"]) + ([f"y{i}"] if i in extra else []), f"v{i}", i in hidden) for i in range(k)]
        cut = rng.randint(1, k - 1) if rng.random() < 0.5 else None
        g = Graph(ns[:cut] + [Graph(ns[cut:], name="inner").as_node()]) if cut else Graph(ns)
        case = {"family": "hidden_nodes", "k": k, "hidden": sorted(hidden), "own_inputs": sorted(extra), "nested_from": cut}
        meta = render_graph(g.to_flat_graph())["meta"]
        for key, edges in meta["edgesByState"].items():
            ids = {m["id"] for m in meta["nodesByState"][key]}
            bad = sorted({(e["source"], e["target"]) for e in edges if e["source"] not in ids or e["target"] not in ids})
            n += 1
            if bad:
                ctx.violation("oracle", f"interactive drawing {key}: edges with an endpoint that is not a declared node of that state: {bad[:3]} "
                              f"(hidden nodes {[f'h{i}' for i in sorted(hidden)]})", case=case)
                break
        for depth in (0, 1):
            src = g.to_mermaid(depth=depth) if hasattr(g, "to_mermaid") else None
            if src is None:
                break
            text = str(getattr(src, "source", src))
            declared = set(re.findall(r"^\s*(?:subgraph\s+)?([A-Za-z_][\w]*)\s*[\[\(\{>]", text, flags=re.M))
            ends = set()
            for a, b in re.findall(r"^\s*([A-Za-z_]\w*)\s*[-=.]+(?:\|[^|]*\|)?[-=.]*>\s*(?:\|[^|]*\|\s*)?([A-Za-z_]\w*)\s*$", text, flags=re.M):
                ends.update((a, b))
            n += 1
            missing = sorted(e for e in ends if e not in declared)
            if missing:
                ctx.violation("oracle", f"Mermaid (depth {depth}): edge endpoints that are not declared ids: {missing[:3]} (hidden nodes {[f'h{i}' for i in sorted(hidden)]})", case=case)
    return n


def run(ctx):
    rng = ctx.rng
    n_hidden = hidden_node_part(ctx)
    batch = CoqBatch("C20", ["Base", "Viz", "VizMaps", "VizProducers"], shard=40, detail_limit=100000)
    cases, infos = [], {}
    dist = {"family": {}, "depth": {}, "renamed": 0, "rejected": 0, "states": 0, "mermaid": 0, "interactive": 0}
    target = ctx.n(260, 2500)
    tries = 0
    pending, twins = None, {}
    corpus = load_corpus()
    while len(cases) < target + len(corpus) and tries < 40 * target:
        tries += 1
        if pending is not None:
            (g, fam, n_ren, twin), pending = pending, None
        elif len(cases) < len(corpus):
            g, fam, n_ren, twin = corpus[len(cases)], "corpus", 0, None
        else:
            fam = rng.choice(FAMILIES)
            # (the shared-name family is drawn without rename variants: its plain twin already carries finding F-o,
            #  which would leave the rename finding F-k without a clean twin to compare with)
            g, g_ren, n_ren = gen_case(rng, fam, rng.random() < 0.25 and fam != "shared")
            twin = None
            if g_ren is not None:
                # the renamed variant is checked right after its twin without renames (see known finding F-k)
                pending = (g_ren, fam, n_ren, len(cases))
                n_ren = 0
        try:
            ob = observe(g)
        except Exception as e:  # noqa: BLE001
            if fam == "corpus":
                ctx.violation("harness", f"corpus case cannot be built: {type(e).__name__}: {e}", case={"graph": g})
                cases.append(g)
            elif twin is not None:
                dist["rename_variant_rejected"] = dist.get("rename_variant_rejected", 0) + 1   # the generator's variant, not the code, is at fault
            else:
                pending = None
            dist["rejected"] += 1
            continue
        i = len(cases)
        cases.append(g)
        N, K, tags, meta = emit_case(batch, i, g, ob)
        infos[i] = (N, K, tags, ob, n_ren)
        twins[i] = twin
        dist["family"][fam] = dist["family"].get(fam, 0) + 1
        dist["depth"][ob["depth"]] = dist["depth"].get(ob["depth"], 0) + 1
        dist["renamed"] += int(n_ren > 0)
        dist["states"] += len(ob["edgesByState"])
        dist["interactive"] += len(ob["edgesByState"])
        dist["mermaid"] += len(ob["mermaid"])
        if not meta["keys_match"]:
            ctx.violation("oracle", "nodesByState and edgesByState do not cover the same states", case={"graph": g})
        if not meta["both_modes"]:
            ctx.violation("oracle", "a state is missing one of the two output modes", case={"graph": g})
        for msg in meta.get("mermaid_unparsed", []):
            ctx.violation("correspondence", f"Mermaid output not understood by the harness parser: {msg}", case={"graph": g})
    res = batch.run(timeout=1500)
    if res["error"]:
        ctx.violation("harness", res["error"])
    index = {}
    for j, chk in enumerate(batch.checks):
        index[(chk[0], chk[3])] = j
    failing_cases = {f[0] for f in res["failed"]}
    for (case, code, mv, rlit, mexp) in res["failed"]:
        N, K, tags, ob, n_ren = infos[case]
        g = cases[case]
        twin_clean = twins.get(case) is not None and twins[case] not in failing_cases
        if code in (1, 2):
            probs = parse_problems(mv, N, K)
            where = next((tags[j] for j in tags if batch.checks[j][0] == case and batch.checks[j][3][:600] == mexp), ("?", "?"))
            what = "; ".join(sorted({f"{p['what']} [{p['a']}{' -> ' + p['b'] if p['b'] else ''}{' ' + str(p['name']) if p['name'] else ''}]" for p in probs}))[:900]
            ctx.violation("oracle", f"{where[0]} drawing {where[1]} is not faithful: {what}", case={"graph": g, "state": where[1], "view": where[0]},
                          observed={"problems": probs, "renames": n_ren, "twin_clean": twin_clean})
        elif code == 10:
            ctx.violation("oracle", "to_flat_graph does not list every nested node exactly once under its parent (differs from Viz.flatten_all)",
                          case={"graph": g}, observed={"model": mv, "real": rlit})
        elif code == 11:
            ctx.violation("oracle", "to_flat_graph's edges differ from the edges of the nesting levels (Viz.flat_edges)", case={"graph": g},
                          observed={"model": mv, "real": rlit})
        elif code in (14, 15):
            ctx.violation("correspondence", f"viz/_common.{'build_param_to_consumer_map' if code == 14 else 'build_output_to_producer_map'} differs from VizMaps "
                          f"({mexp[:200]})", case={"graph": g})
        elif code == 12:
            ctx.violation("oracle", "the precomputed states are not exactly the valid expansion states (Viz.enum_states)", case={"graph": g},
                          observed={"model": mv, "real": rlit})
        else:
            ctx.violation("correspondence", "build_expansion_state(depth) differs from Viz.state_of_depth", case={"graph": g},
                          observed={"model": mv, "real": rlit})
    nontrivial = {canon(cases[i]["nodes"]) for i, inf in infos.items() if inf[3]["depth"] >= 1 and len(inf[3]["T"]) >= 4}
    sample = None
    for i, inf in infos.items():
        if inf[3]["depth"] >= 2:
            sample = {"graph": cases[i]["nodes"], "states": sorted(inf[3]["edgesByState"].keys())}
            break
    ctx.coverage.update(
        evaluations=len(batch) + n_hidden, hidden_node_drawings=n_hidden, coq_checks=res["n"], programs=len(infos), distinct_nontrivial=len(nontrivial),
        rule="graphs from the families dag / gated / emit+wait_for / loop (L1, L2) / ungated cycles / two cycles / shared output names (exclusive "
             "branches, ordered writers), with dependency-, gate- and "
             "signal-closed groups wrapped into nested graphs to depth 0-3 (siblings and nestings mixed), 20% with values renamed at wrapper "
             "boundaries (with_inputs/with_outputs); for each: to_flat_graph, the set of precomputed states, EVERY valid expansion state x both "
             "output modes of the interactive data, and Mermaid at every depth x both modes, each drawing through Viz.viz_problems; "
             "non-trivial = nesting depth >= 1 and >= 4 nodes in all, distinct by node list",
        distribution=dist, samples=[sample] if sample else [{"graph": cases[0]["nodes"]}] if cases else [],
        traces_validated_against_impl=dist["interactive"] + dist["mermaid"], disagreements_checked=res["n"])


def load_corpus():
    import json
    from harness.common import CORPUS
    out = []
    d = CORPUS / "C20"
    if d.exists():
        for p in sorted(d.glob("*.json")):
            out.append(json.loads(p.read_text())["graph"])
    return out


def replay(ctx, rp):
    g = (rp.get("case") or {}).get("graph")
    if not g:
        print("replay file carries no graph")
        return
    batch = CoqBatch("C20r", ["Base", "Viz", "VizMaps", "VizProducers"], shard=40)
    ob = observe(g)
    N, K, tags, meta = emit_case(batch, 0, g, ob)
    res = batch.run(timeout=600)
    for (case, code, mv, rlit, mexp) in res["failed"]:
        probs = parse_problems(mv, N, K) if code in (1, 2) else mv
        where = next((tags[j] for j in tags if batch.checks[j][3][:600] == mexp), ("?", "?"))
        print("FAILS:", code, where, probs)
        ctx.violation("oracle", f"replayed case fails check {code} at {where}", case={"graph": g}, observed={"problems": probs})
    ctx.coverage.update(evaluations=len(batch), distinct_nontrivial=0, programs=1, samples=[{"graph": g["nodes"]}], disagreements_checked=res["n"])
