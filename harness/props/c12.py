"""C12 — events of every terminated run form a complete, well-nested span tree.

TRANSLATION VALIDATION: the event stream the implementation delivers to a processor, for every generated execution (nested,
mapped, cyclic, gated, failing at any node; both runners, adversarial completion orders), is handed to the checker wf_b of
coq/theories/Events.v, whose acceptance is proved (coq/props/C12.v) to imply: every span opened once and closed once, children
closed before parents, nested runs inside the launching node's span, root RunStart first / RunEnd last with the caller's status.
Additionally: shutdown is invoked exactly once per top-level call; the number of node spans equals the number of executions.
"""
from __future__ import annotations

import copy

from harness import gen, pdl, engine
from harness.common import CoqBatch, Names, c_list, c_pos, c_nat, c_opt, c_bool, canon

KIND = {"RunStartEvent": "KRunStart", "NodeStartEvent": "KNodeStart", "NodeEndEvent": "KNodeEnd", "NodeErrorEvent": "KNodeError",
        "CacheHitEvent": "KCacheHit", "RouteDecisionEvent": "KRoute"}


def c_event(N, ev):
    ty = ev["type"]
    if ty == "RunEndEvent":
        k = f"(KRunEnd {c_bool(ev.get('status') == 'failed')})"
    else:
        k = KIND.get(ty, "KOther")
    node = ev.get("node_name") or "__run__"
    return f"(mk_event {k} {c_nat(ev['span'])} {c_opt(ev['parent'], c_nat)} {c_pos(N(node))})"


def real_tree(evs):
    """The span tree of an observed stream: children in order of their start; a RouteDecision marks the open node span of its
    name under the run it names."""
    nodes, root, open_nodes = {}, None, []
    for e in evs:
        ty = e["type"]
        if ty == "RunStartEvent":
            t = {"run": True, "failed": False, "is_map": bool(e.get("is_map")), "kids": []}
            nodes[e["span"]] = t
            if e["parent"] is None:
                root = t
            else:
                nodes[e["parent"]]["kids"].append(t)
        elif ty == "NodeStartEvent":
            t = {"run": False, "name": e["node_name"], "err": False, "route": False, "kids": [], "parent": e["parent"], "span": e["span"]}
            nodes[e["span"]] = t
            nodes[e["parent"]]["kids"].append(t)
            open_nodes.append(t)
        elif ty in ("NodeEndEvent", "NodeErrorEvent"):
            t = nodes[e["span"]]
            t["err"] = ty == "NodeErrorEvent"
            open_nodes = [x for x in open_nodes if x is not t]
        elif ty == "RunEndEvent":
            nodes[e["span"]]["failed"] = e.get("status") == "failed"
        elif ty == "RouteDecisionEvent":
            for x in open_nodes:
                if x["name"] == e.get("node_name") and x["parent"] == e["parent"]:
                    x["route"] = True
    return root


def c_stree(N, t):
    kids = c_list([c_stree(N, k) for k in t["kids"]])
    if t["run"]:
        return f"(ST (LRun {c_bool(t['failed'])} {c_bool(t['is_map'])}) {kids})"
    return f"(ST (LNode {c_pos(N(t['name']))} {c_bool(t['err'])} {c_bool(t['route'])}) {kids})"


def has_kind(g, kinds):
    for n in g["nodes"]:
        if n["kind"] in kinds:
            return True
        if n["kind"] == "graph" and has_kind(n["graph"], kinds):
            return True
    return False


def build_case(rng):
    fam = rng.choice(["dag", "gated", "loop", "loop_sync", "emit", "nested", "nested", "mapnode", "topmap", "siblings"])
    run_map = None
    if fam == "siblings":
        # several nested graphs ready in the same superstep
        nodes = []
        for j in range(rng.randint(2, 3)):
            inner = {"nodes": [{"name": f"leaf{j}", "kind": "func", "inputs": ["x"], "outputs": [f"o{j}"], "emit": [], "wait_for": [], "defaults": {},
                                "fn": ["sym", f"leaf{j}"]}], "bound": {}, "entrypoints": None, "selected": None, "name": f"sib{j}_g"}
            nodes.append({"name": f"sib{j}", "kind": "graph", "graph": inner, "inputs": [], "outputs": [], "in_hist": [], "out_hist": []})
        g = {"nodes": nodes, "bound": {}, "entrypoints": None, "selected": None}
        inputs = {"x": rng.randint(0, 3)}
    elif fam == "nested":
        g = gen.gen_dag(rng, max_nodes=6, edge_defaults=0.05)
        for lvl in range(rng.choice([1, 2, 3])):
            S = gen.convex_subset(rng, g)
            if not S:
                break
            g = gen.nest(rng, g, S, f"w{lvl}")
        inputs = gen.make_inputs(rng, g)
    elif fam in ("mapnode", "topmap"):
        from harness.props.c10 import item_graph, make_lists, F
        ig, params = item_graph(rng)
        over = rng.sample(params, rng.randint(1, len(params)))
        mode = rng.choice(["zip", "product"])
        inputs = make_lists(rng, over, mode, allow_bad=False)
        for p in params:
            if p not in over:
                inputs[p] = rng.randint(0, 4)
        inputs["k"] = rng.randint(5, 9)
        if fam == "mapnode":
            ig["name"] = "mapper_g"
            gn = {"name": "mapper", "kind": "graph", "graph": ig, "inputs": [], "outputs": [], "in_hist": [], "out_hist": [],
                  "map_over": list(over), "map_mode": mode, "map_continue": rng.random() < 0.6}
            g = {"nodes": [gn, F("post", ["k"], ["p_out"], ["sym", "post"])], "bound": {}, "entrypoints": None, "selected": None}
        else:
            g = ig
            run_map = {"over": over, "mode": mode}
    else:
        g, _ = gen.gen_program(rng, fam)
        inputs = gen.make_inputs(rng, g)
    if rng.random() < 0.3:
        from harness.props.c11 import leaves, with_failure
        lv = list(leaves(g))
        if lv:
            path, n = rng.choice(lv)
            g = with_failure(g, path, n["name"], 500)
    rc = {"runner": rng.choice(["sync", "async"]), "inputs": inputs, "error_handling": rng.choice(["continue", "continue", "raise"]),
          "max_iterations": 40, "events": rng.choice([True, "async"]), "sched_seed": rng.randint(0, 10**6), "fresh_rank": True}
    if rc["runner"] == "async" and rng.random() < 0.4:
        rc["max_concurrency"] = rng.choice([1, 2, 2, 3])       # a bounded pool (runner.map: worker pool; run: shared limiter)
    if fam == "gated" and rng.random() < 0.5:
        # select the outputs of a gate's branches with a strict policy: a branch not taken produces nothing, so the run completes
        # and the call then fails (or warns) on the missing output - the stream must still hold ONE RunEnd, with what the caller sees
        tg = [t for nn in g["nodes"] if nn["kind"] in ("route", "ifelse")
              for t in (nn.get("targets") or [nn.get("when_true"), nn.get("when_false")]) if t and t != "END"]
        outs = [o for nn in g["nodes"] if nn["name"] in tg for o in nn.get("outputs", [])]
        if outs:
            rc["select"] = rng.sample(outs, rng.randint(1, min(2, len(outs))))
            rc["on_missing"] = rng.choice(["error", "error", "warn"])
    elif not run_map and rng.random() < 0.25:
        outs = [o for nn in g["nodes"] for o in gen.iface(nn)[1]]
        if outs:
            rc["select"] = rng.sample(outs, rng.randint(1, min(2, len(outs))))
            rc["on_missing"] = rng.choice(["ignore", "warn", "error"])
    if run_map:
        rc["map"] = run_map
    if rng.random() < 0.2:
        # cacheable nodes over a backend whose k-th write fails: the failure surfaces through the node that was storing
        some = False
        for path, n in __import__("harness.props.c11", fromlist=["leaves"]).leaves(g):
            if rng.random() < 0.6:
                n["cache"] = True
                some = True
        if some:
            rc["cache"] = {"fail_on": rng.randint(1, 3)}
    return fam, g, rc


def run(ctx):
    rng = ctx.rng
    N = Names()
    batch = CoqBatch("C12", engine.IMPORTS + ["Events", "EventsModel", "EventsTree"], shard=120)
    dist = {"family": {}, "failed": 0, "events": 0, "max_depth": 0, "empty_map": 0}
    nontrivial = set()
    samples = []
    n = 0
    tries = 0
    target = ctx.n(600, 5000)
    while n < target and tries < target * 3:
        tries += 1
        try:
            fam, g, rc = build_case(rng)
        except Exception:  # noqa: BLE001
            continue
        import random as _r
        rr = _r.Random(rc["sched_seed"])
        obs = pdl.run_real(g, rc, rank=(lambda name, rr=rr: rr.random()))
        case = {"graph": g, "run": rc}
        evs = obs.get("events", [])
        if obs["status"] == "paused":
            continue
        dist["family"][fam] = dist["family"].get(fam, 0) + 1
        n += 1
        failed = obs["status"] in ("failed", "raised")
        if obs["status"] == "mapped":
            failed = False
        if obs["status"] == "raised" and obs.get("error_class") in ("MissingInputError", "GraphConfigError", "IncompatibleRunnerError"):
            # a rejected call emits nothing
            if evs or obs.get("shutdowns"):
                ctx.violation("oracle", f"rejected call ({obs['error_class']}) emitted {len(evs)} event(s) / {obs.get('shutdowns')} shutdown(s)", case=case)
            continue
        dist["failed"] += int(failed)
        dist["events"] += len(evs)
        if not evs:
            if rc.get("map") is not None and obs["status"] == "mapped" and not obs["results"]:
                dist["empty_map"] += 1
                ctx.violation("oracle", "map over an empty input list returned [] without any RunStart/RunEnd and without shutting the processor down",
                              case=case, observed={"events": evs, "shutdowns": obs.get("shutdowns")})
            else:
                ctx.violation("oracle", "a terminated call delivered no event at all", case=case)
            continue
        if obs.get("shutdowns") != 1:
            ctx.violation("oracle", f"processor.shutdown() invoked {obs.get('shutdowns')} times for one top-level call", case=case)
        batch.add(n, 1, "Bool.eqb", f"wf_b {c_bool(failed)} {c_list([c_event(N, e) for e in evs])}", "true")
        # the stream of a synchronous run of a flat graph IS the emission function of EventsModel.v applied to the calls made
        # (RunStart; per call NodeStart, [RouteDecision], NodeEnd | NodeError; RunEnd) - theorem C12_model says every such stream is WF
        flat = not any(nn["kind"] in ("graph", "interrupt") for nn in g["nodes"])
        defined = False
        if flat and rc["runner"] == "sync" and not rc.get("map") and not rc.get("cache") and obs["status"] in ("completed", "failed", "raised"):
            from harness.props.c16 import missing_error
            node_failed = failed and obs.get("error") not in (1, 2) and not missing_error(obs)
            kinds = {nn["name"]: nn["kind"] for nn in g["nodes"]}
            k = len(obs["log"])
            xs = c_list([f"(mk_nexec {c_pos(N(nm))} {c_bool(kinds.get(nm) in ('ifelse', 'route') and not (node_failed and j + 1 == k))} "
                         f"{c_bool(node_failed and j + 1 == k)})" for j, (nm, _kw) in enumerate(obs["log"])])
            batch.add(n, 110, "events_eqb", f"run_events {xs} {c_bool(failed)}", c_list([c_event(N, e) for e in evs]))
            if not missing_error(obs) and not rc.get("select"):
                # ... and the same stream derived from the ENGINE MODEL's own run of this program (instrumented model)
                engine.define_case(batch, n, N, g, rc)
                defined = True
                batch.add(n, 111, "events_eqb", "events_of_result $g $res", c_list([c_event(N, e) for e in evs]))
            dist["emission_checked"] = dist.get("emission_checked", 0) + 1
        # the span TREE of the run is the tree of the nested engine model's run (EventsTree.tree_ng; theorem C12_model_nested_run:
        # the synchronous stream of every such tree is well formed): synchronous runs emit exactly its depth-first stream,
        # asynchronous runs a stream with the same tree up to the order within a superstep / among the items of a map
        if (not rc.get("map") and not rc.get("cache") and not rc.get("select") and obs["status"] in ("completed", "failed")
                and not has_kind(g, ("interrupt",)) and obs.get("error") != 1):
            if not defined:
                engine.define_case(batch, n, N, g, rc)
            d = pdl.graph_depth(g) + 1
            if rc["runner"] == "sync":
                batch.add(n, 112, "events_eqb", f"lin_root (tree_ng {d} Sync $fuel $ng $pv)", c_list([c_event(N, e) for e in evs]))
            else:
                batch.add(n, 113, "Bool.eqb", f"sim 60 (tree_ng {d} Async $fuel $ng $pv) {c_stree(N, real_tree(evs))}", "true")
            dist["tree_checked"] = dist.get("tree_checked", 0) + 1
        # top-level runner.map: a map run span holding one run span per input combination (EventsTree.tree_map_top, C12_model_top_map)
        if (rc.get("map") and not rc.get("cache") and not rc.get("select") and obs["status"] in ("mapped", "raised")
                and not has_kind(g, ("interrupt",))
                # (a bounded pool in raise mode stops taking items at the first failure: which items started depends on the schedule)
                and not (rc.get("max_concurrency") and rc["error_handling"] == "raise")):
            engine.define_case(batch, n, N, g, rc)
            d = pdl.graph_depth(g) + 1
            ov = c_list([c_pos(N(x)) for x in rc["map"]["over"]])
            md = "MProduct" if rc["map"].get("mode") == "product" else "MZip"
            cont = c_bool(rc["error_handling"] == "continue")
            if rc["runner"] == "sync":
                batch.add(n, 114, "Bool.eqb", f"match tree_map_top {d} Sync $fuel $ng $pv {ov} {md} {cont} with Some t => "
                          f"events_eqb (lin_root t) {c_list([c_event(N, e) for e in evs])} | None => false end", "true")
            else:
                batch.add(n, 115, "Bool.eqb", f"match tree_map_top {d} Async $fuel $ng $pv {ov} {md} {cont} with Some t => "
                          f"sim 60 t {c_stree(N, real_tree(evs))} | None => false end", "true")
            dist["map_tree_checked"] = dist.get("map_tree_checked", 0) + 1
        # a nested run is parented to the span of the node that launched it (generated wrappers name their graph <node>_g)
        span_node = {e["span"]: e.get("node_name") for e in evs if e["type"] == "NodeStartEvent"}
        for e in evs:
            if e["type"] == "RunStartEvent" and e["parent"] in span_node and (e.get("graph_name") or "").endswith("_g"):
                if e["graph_name"] != span_node[e["parent"]] + "_g":
                    ctx.violation("oracle", f"the nested run of graph {e['graph_name']!r} is parented to the span of node {span_node[e['parent']]!r}, not to the node that launched it",
                                  case=case, observed={"events": [(x["type"], x["span"], x["parent"], x.get("node_name"), x.get("graph_name")) for x in evs]})
                    break
        cases_keep[n] = (case, evs, obs["status"])
        starts = sum(1 for e in evs if e["type"] == "NodeStartEvent")
        depth = max_depth(evs)
        dist["max_depth"] = max(dist["max_depth"], depth)
        if depth >= 2 or failed:
            nontrivial.add(canon({"g": g["nodes"], "in": rc["inputs"], "r": rc["runner"]}))
        if len(samples) < 2:
            samples.append({"family": fam, "status": obs["status"], "events": [(e["type"], e["span"], e["parent"], e.get("node_name")) for e in evs][:40]})
    res = batch.run()
    if res["error"]:
        ctx.violation("harness", res["error"])
    for (ci, code, mv, real, mexp) in res["failed"]:
        case, evs, status = cases_keep.get(ci, ({}, [], None))
        if code in (112, 113, 114, 115):
            ctx.violation("correspondence", "the span tree of the run differs from the tree of the engine model's run (EventsTree.tree_ng)"
                          + (": the synchronous stream is not its depth-first stream" if code == 112 else " (up to the order within a superstep)"),
                          case=case, observed={"events": [(e["type"], e["span"], e["parent"], e.get("node_name"), e.get("status")) for e in evs], "model": mv[:800]})
            continue
        if code in (110, 111):
            ctx.violation("correspondence", "the event stream of a synchronous flat run differs from EventsModel.run_events applied to the calls made",
                          case=case, observed={"events": [(e["type"], e["span"], e["parent"], e.get("node_name"), e.get("status")) for e in evs], "model": mv[:800]})
            continue
        ctx.violation("oracle", f"the event stream is not a well-formed span tree (checker wf_b rejects it; caller observed {status})",
                      case=case, observed={"events": [(e["type"], e["span"], e["parent"], e.get("node_name"), e.get("status")) for e in evs]})
    ctx.coverage.update(
        programs=n, disagreements_checked=res["n"], evaluations=n, distinct_nontrivial=len(nontrivial),
        rule="dag / gated / loop / emit programs, DAGs nested to depth 1-3, mapping nodes and top-level runner.map (zip/product), 30% with a "
             "failing node, error_handling continue/raise, both runners under adversarial completion orders; non-trivial = span depth >= 2 "
             "(node inside run inside node ...) or a failed run",
        distribution=dist, samples=samples, traces_validated_against_impl=n)


cases_keep = {}


def max_depth(evs):
    parent = {}
    for e in evs:
        if e["type"] in ("RunStartEvent", "NodeStartEvent"):
            parent[e["span"]] = e["parent"]
    best = 0
    for s in parent:
        d, x = 0, s
        while x is not None and d < 50:
            x = parent.get(x)
            d += 1
        best = max(best, d)
    return best


LEVEL = "proof"
