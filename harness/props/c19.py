"""C19 — structural mistakes are rejected at graph construction, wherever they occur; the type judgement follows the
documented rules.

PROOF: coq/props/C19.v — (i) `valid` (the constructor's validation pipeline, Validate.v) accepts exactly the graphs that are
well-formed in the declarative sense (paths are the inductive closure `rt`, decided by Reach.v's proven procedure); a single flaw of
any class at any position makes `valid` false; (ii) `compat` (Typing.v) satisfies the documented rules as equations for type
expressions of any depth.
CORRESPONDENCE + ORACLE on the real code:
  * every valid generated graph (fragments: chains with shared parameters and emit/wait_for, exclusive gate branches with
    downstream-exclusive producers, ordered producers, cycles, multi-target routes, interrupts, nested graphs with renamed outputs and
    map_over; auto-inferred and explicit edges; strict types on/off) must be ACCEPTED; every single injected flaw at every position,
    also inside nested graphs, must be rejected with GraphConfigError (any other exception class is a violation);
  * Graph(...) outcome == Validate.valid on the same description (MODEL);
  * is_type_compatible on all ordered pairs of a closed universe of type expressions == Typing.compat.
"""
from __future__ import annotations

import collections.abc
import copy
import itertools
import keyword
import typing
import warnings

from harness.common import CoqBatch, Names, c_list, c_pair, c_pos, c_opt, c_bool, canon
from harness import pdl

IMPORTS = ["Base", "Typing", "Reach", "Validate"]

# =========================================================================== type expressions


class A:  # noqa: D101
    pass


class B(A):  # noqa: D101
    pass


CLASSES = {"int": int, "bool": bool, "str": str, "float": float, "object": object, "NoneType": type(None), "A": A, "B": B,
           "list": list, "dict": dict, "tuple": tuple, "set": set, "Sequence": collections.abc.Sequence,
           "Mapping": collections.abc.Mapping, "Any": typing.Any}
CLS_ID = {k: i + 1 for i, k in enumerate(CLASSES)}
ANY_ID = CLS_ID["Any"]


def C(key, *args):
    return ("c", key, tuple(args))


ANY = ("any",)
NOANN = ("na",)


def U(*members, pipe=False):
    return ("u", tuple(members), pipe)


def AN(t, meta="m"):
    return ("an", t, meta)


INT, BOOL, STR, FLOAT, OBJ, NONE, TA, TB_ = (C(k) for k in ("int", "bool", "str", "float", "object", "NoneType", "A", "B"))

_TV = {}


def _typevars():
    if not _TV:
        _TV["T"] = (typing.TypeVar("T"), (), None)
        _TV["TB"] = (typing.TypeVar("TB", bound=int), (), INT)
        _TV["TC"] = (typing.TypeVar("TC", int, str), (INT, STR), None)
        _TV["TBL"] = (typing.TypeVar("TBL", bound=list[int]), (), C("list", INT))
        _TV["TCG"] = (typing.TypeVar("TCG", list[int], str), (C("list", INT), STR), None)
    return _TV


def TV(key):
    return ("tv", key)


def py_of(t):
    k = t[0]
    if k == "c":
        cls = CLASSES[t[1]]
        return cls[tuple(py_of(a) for a in t[2])] if t[2] else cls
    if k == "any":
        return typing.Any
    if k == "u":
        ms = [py_of(m) for m in t[1]]
        if t[2]:
            r = ms[0]
            for m in ms[1:]:
                r = r | m
            return r
        return typing.Union[tuple(ms)]  # noqa: UP007
    if k == "an":
        return typing.Annotated[py_of(t[1]), t[2]]
    if k == "tv":
        return _typevars()[t[1]][0]
    if k == "na":
        from hypergraph._typing import NoAnnotation
        return NoAnnotation
    if k == "un":
        from hypergraph._typing import Unresolvable
        return Unresolvable(t[1])
    raise ValueError(t)


def coq_ty(N: Names, t) -> str:
    k = t[0]
    if k == "c":
        return f"(TCls {c_pos(CLS_ID[t[1]])} {c_list([coq_ty(N, a) for a in t[2]])})"
    if k == "any":
        return "TAny"
    if k == "u":
        return f"(TUnion {c_list([coq_ty(N, m) for m in t[1]])})"
    if k == "an":
        return f"(TAnnot {coq_ty(N, t[1])} {c_pos(N('meta:' + t[2]))})"
    if k == "tv":
        _, cs, b = _typevars()[t[1]]
        return f"(TVar {c_pos(N('tv:' + t[1]))} {c_list([coq_ty(N, c) for c in cs])} {c_opt(b, lambda x: coq_ty(N, x))})"
    if k == "na":
        return "TNoAnn"
    if k == "un":
        return f"(TUnres {c_pos(N('un:' + t[1]))})"
    raise ValueError(t)


def mentions(t, kind) -> bool:
    if t[0] == kind:
        return True
    if t[0] == "c":
        return any(mentions(a, kind) for a in t[2])
    if t[0] == "u":
        return any(mentions(a, kind) for a in t[1])
    if t[0] == "an":
        return mentions(t[1], kind)
    return False


def sub_table() -> list[tuple[int, int]]:
    out = []
    for a, ca in CLASSES.items():
        for b, cb in CLASSES.items():
            try:
                if isinstance(ca, type) and isinstance(cb, type) and issubclass(ca, cb):
                    out.append((CLS_ID[a], CLS_ID[b]))
            except TypeError:
                pass
    return out


def coq_preamble() -> str:
    st = c_list([c_pair(c_pos(a), c_pos(b)) for a, b in sub_table()])
    return (f"Definition SUBT : list (positive * positive) := {st}.\n"
            "Definition SUB (a b : positive) : bool := existsb (fun p => Pos.eqb (fst p) a && Pos.eqb (snd p) b) SUBT.\n"
            f"Definition ANYID : positive := {c_pos(ANY_ID)}.\n"
            "Definition LB (a b : list bool) : bool := Nat.eqb (length a) (length b) && forallb (fun p => Bool.eqb (fst p) (snd p)) (combine a b).\n")


def type_universe(thorough: bool) -> list:
    atoms = [INT, BOOL, STR, FLOAT, OBJ, NONE, TA, TB_]
    bare = [C("list"), C("dict"), C("Sequence"), C("tuple")]
    small = [INT, BOOL, STR, ANY]
    u = list(atoms) + [ANY] + bare
    u += [C("list", a) for a in small] + [C("Sequence", a) for a in small]
    u += [C("dict", STR, INT), C("dict", STR, BOOL), C("Mapping", STR, INT), C("dict", INT, INT), C("tuple", INT, STR), C("tuple", BOOL, STR), C("tuple", INT),
          C("set", INT)]
    ubase = [INT, BOOL, STR, NONE, FLOAT, TA, TB_]
    pairs = list(itertools.combinations(ubase, 2))
    for k, (a, b) in enumerate(pairs):
        u.append(U(a, b, pipe=(k % 2 == 0)))
    u += [U(STR, INT), U(INT, STR, NONE), U(NONE, INT, pipe=True), U(INT, ANY)]
    u += [C("list", U(INT, STR)), C("list", U(STR, INT, pipe=True)), C("list", C("list", INT)), C("list", C("list", BOOL)), C("Sequence", C("list", INT)),
          C("dict", STR, C("list", INT)), C("dict", STR, U(INT, NONE)), U(C("list", INT), NONE), U(C("list", INT), C("list", STR)), U(C("list", BOOL), STR),
          C("list", C("Sequence", INT)), C("Mapping", STR, C("Sequence", INT))]
    u += [AN(INT), AN(BOOL), AN(C("list", INT)), AN(U(INT, STR)), AN(INT, "k"), C("list", AN(INT))]
    u += [TV("T"), TV("TB"), TV("TC"), TV("TBL"), TV("TCG"), C("list", TV("T")), C("list", TV("TB")), U(TV("TC"), NONE)]
    u += [NOANN, ("un", "Missing"), C("list", ("un", "Missing"))]
    if thorough:
        lvl1 = [t for t in u if t[0] == "c" and len(t[2]) <= 1 and not mentions(t, "tv") and not mentions(t, "un")][:18]
        for a, b in itertools.combinations(lvl1, 2):
            u.append(U(a, b))
        for a in lvl1:
            u += [C("list", a), C("Sequence", a), C("dict", STR, a), AN(a), U(a, NONE, pipe=True)]
        for a, b in itertools.product(lvl1[:8], lvl1[:8]):
            u.append(C("tuple", a, b))
    seen, out = set(), []
    for t in u:
        if t not in seen:
            seen.add(t)
            out.append(t)
    return out


def check_types(ctx, N):
    from hypergraph._typing import is_type_compatible

    uni = type_universe(not ctx.quick())
    pys = [py_of(t) for t in uni]
    n = len(uni)
    pre = coq_preamble() + f"Definition UNI : list ty := {c_list([coq_ty(N, t) for t in uni])}.\n" \
        "Definition ROW (i : nat) : list bool := map (fun r => compat SUB ANYID (nth i UNI TNoAnn) r) UNI.\n"
    batch = CoqBatch("C19t", IMPORTS, shard=max(4, n // 14), preamble=pre)
    rows = []
    true_count = 0
    with warnings.catch_warnings():
        warnings.simplefilter("ignore")
        for i in range(n):
            row = []
            for j in range(n):
                try:
                    row.append(bool(is_type_compatible(pys[i], pys[j])))
                except Exception as e:  # noqa: BLE001
                    row.append(None)
                    ctx.violation("oracle", f"is_type_compatible raised {type(e).__name__}: {e}", case={"incoming": repr(pys[i]), "required": repr(pys[j])})
            rows.append(row)
            true_count += sum(1 for x in row if x)
            batch.add(i, 110, "LB", f"ROW {i}", c_list([c_bool(bool(x)) for x in row]))
    res = batch.run()
    if res["error"]:
        ctx.violation("harness", res["error"])
    bad_pairs = 0
    for (ci, code, mv, real, mexp) in res["failed"]:
        model_row = [x.strip() == "true" for x in mv.split(":")[0].strip().strip("[]").split(";")]
        for j in range(min(n, len(model_row))):
            if rows[ci][j] is not None and rows[ci][j] != model_row[j]:
                bad_pairs += 1
                documented = not (mentions(uni[ci], "tv") or mentions(uni[j], "tv"))
                ctx.violation("oracle" if documented else "correspondence",
                              f"is_type_compatible({pys[ci]!r}, {pys[j]!r}) = {rows[ci][j]} but the documented rules (Typing.compat) give {model_row[j]}",
                              case={"incoming": repr(pys[ci]), "required": repr(pys[j]), "incoming_term": uni[ci], "required_term": uni[j]})
    return {"types": n, "pairs": n * n, "compatible_pairs": true_count, "mismatching_pairs": bad_pairs}


# =========================================================================== graph descriptions (VDL)

COMPAT_PAIRS = [(INT, INT), (BOOL, INT), (INT, U(INT, STR)), (C("list", INT), C("Sequence", INT)), (INT, ANY), (C("list", INT), C("list")), (STR, STR),
                (TB_, TA), (U(INT, NONE), U(INT, NONE, STR)), (C("dict", STR, INT), C("Mapping", STR, INT))]
# for a required type R: producer types that do NOT satisfy it
WRONG_FOR = {INT: [STR, U(INT, STR), FLOAT], U(INT, STR): [FLOAT, C("list", INT)], C("Sequence", INT): [C("list", STR), INT], C("list"): [INT, C("dict", STR, INT)],
             STR: [INT], TA: [INT, OBJ], U(INT, NONE, STR): [FLOAT, U(INT, FLOAT)], C("Mapping", STR, INT): [C("dict", STR, STR), C("list", INT)],
             C("list", INT): [C("list", STR), INT, C("Sequence", INT)]}
BAD_IDENTS = ["class", "a-b", "1x", "a.b", "x y", "def"]


def fnode(name, ins, outs, in_ty=None, out_ty=None, **kw):
    n = {"name": name, "kind": "func", "inputs": list(ins), "outputs": list(outs), "emit": [], "wait_for": [], "defaults": {}, "targets": [],
         "in_ty": dict(in_ty or {}), "out_ty": dict(out_ty or {})}
    n.update(kw)
    return n


def gate(name, kind, ins, targets, in_ty=None, multi=False):
    return {"name": name, "kind": kind, "inputs": list(ins), "outputs": [], "emit": [], "wait_for": [], "defaults": {}, "targets": list(targets), "multi": multi,
            "in_ty": dict(in_ty or {}), "out_ty": {}}


def frag_chain(rng, px):
    k = rng.randint(2, 4)
    nodes, vals = [], []  # vals: (name, producer type, required type)
    for i in range(k):
        ins, in_ty = [], {}
        if vals and rng.random() < 0.85:
            for (v, p, r) in rng.sample(vals, min(len(vals), rng.randint(1, 2))):
                ins.append(v)
                in_ty[v] = r
        if not ins or rng.random() < 0.4:
            f = f"{px}in{rng.randint(0, 1)}"
            if f not in ins:
                ins.append(f)
                in_ty[f] = INT
        outs, out_ty = [], {}
        for j in range(rng.choice([1, 1, 2])):
            v = f"{px}v{i}_{j}"
            p, r = rng.choice(COMPAT_PAIRS)
            outs.append(v)
            out_ty[v] = p
            vals.append((v, p, r))
        nodes.append(fnode(f"{px}n{i}", ins, outs, in_ty, out_ty))
    if k >= 2 and rng.random() < 0.5:
        a, b = sorted(rng.sample(range(k), 2))
        nodes[a]["emit"] = [f"{px}sig"]
        nodes[b]["wait_for"] = [f"{px}sig"]
    return nodes


def frag_branches(rng, px):
    p_r = rng.choice([(INT, INT), (BOOL, INT), (INT, U(INT, STR)), (TB_, TA)])
    nodes = [fnode(f"{px}src", [f"{px}in"], [f"{px}x"], {f"{px}in": INT}, {f"{px}x": INT})]
    nt = rng.choice([2, 2, 3])
    tnames = [f"{px}t{j}" for j in range(nt)]
    deep = rng.random() < 0.5
    for j, t in enumerate(tnames):
        if deep and j == 0:
            nodes.append(fnode(t, [f"{px}x"], [f"{px}a"], {f"{px}x": INT}, {f"{px}a": INT}))
            nodes.append(fnode(f"{px}d0", [f"{px}a"], [f"{px}s"], {f"{px}a": INT}, {f"{px}s": p_r[0]}))
        else:
            nodes.append(fnode(t, [f"{px}x"], [f"{px}s"], {f"{px}x": INT}, {f"{px}s": p_r[0] if j % 2 == 0 else (p_r[1] if p_r[1] != U(INT, STR) else STR)}))
    if nt == 2 and rng.random() < 0.5:
        nodes.append(gate(f"{px}g", "ifelse", [f"{px}x"], tnames, {f"{px}x": INT}))
    else:
        tg = list(tnames) + (["END"] if rng.random() < 0.4 else [])
        nodes.append(gate(f"{px}g", "route", [f"{px}x"], tg, {f"{px}x": INT}))
    nodes.append(fnode(f"{px}c", [f"{px}s"], [f"{px}out"], {f"{px}s": p_r[1]}, {f"{px}out": INT}))
    return nodes


def frag_ordered(rng, px):
    variant = rng.choice(["emit", "via"])
    if variant == "emit":
        return [fnode(f"{px}p1", [f"{px}in"], [f"{px}x"], {f"{px}in": INT}, {f"{px}x": INT}, emit=[f"{px}sig"]),
                fnode(f"{px}p2", [f"{px}in2"], [f"{px}x"], {f"{px}in2": INT}, {f"{px}x": BOOL}, wait_for=[f"{px}sig"]),
                fnode(f"{px}c", [f"{px}x"], [f"{px}o"], {f"{px}x": INT}, {f"{px}o": INT})]
    return [fnode(f"{px}p1", [f"{px}in"], [f"{px}x", f"{px}t"], {f"{px}in": INT}, {f"{px}x": INT, f"{px}t": STR}),
            fnode(f"{px}p2", [f"{px}t"], [f"{px}x"], {f"{px}t": STR}, {f"{px}x": INT}),
            fnode(f"{px}c", [f"{px}x"], [f"{px}o"], {f"{px}x": U(INT, STR)}, {f"{px}o": INT})]


def frag_cycle(rng, px):
    return [fnode(f"{px}acc", [f"{px}x", f"{px}step"], [f"{px}x"], {f"{px}x": INT, f"{px}step": INT}, {f"{px}x": INT}, defaults={f"{px}step": 1}),
            gate(f"{px}g", "route", [f"{px}x"], [f"{px}acc", "END"], {f"{px}x": INT})]


def frag_multi(rng, px):
    return [fnode(f"{px}src", [f"{px}in"], [f"{px}x"], {f"{px}in": INT}, {f"{px}x": INT}),
            gate(f"{px}g", "route", [f"{px}x"], [f"{px}t0", f"{px}t1"], {f"{px}x": INT}, multi=True),
            fnode(f"{px}t0", [f"{px}x"], [f"{px}y0"], {f"{px}x": INT}, {f"{px}y0": INT}),
            fnode(f"{px}t1", [f"{px}x"], [f"{px}y1"], {f"{px}x": U(INT, STR)}, {f"{px}y1": STR})]


def frag_interrupt(rng, px):
    return [fnode(f"{px}w", [f"{px}in"], [f"{px}draft"], {f"{px}in": INT}, {f"{px}draft": STR}),
            {"name": f"{px}ask", "kind": "interrupt", "inputs": [f"{px}draft"], "outputs": [f"{px}dec"], "emit": [], "wait_for": [], "defaults": {}, "targets": [],
             "in_ty": {f"{px}draft": STR}, "out_ty": {f"{px}dec": STR}},
            fnode(f"{px}use", [f"{px}dec"], [f"{px}fin"], {f"{px}dec": STR}, {f"{px}fin": INT})]


FRAGS = [frag_chain, frag_chain, frag_branches, frag_branches, frag_ordered, frag_cycle, frag_multi, frag_interrupt]


def frag_nested(rng, px, depth):
    inner_nodes = rng.choice([frag_chain, frag_branches, frag_ordered])(rng, px + "i")
    if depth > 1 and rng.random() < 0.5:
        inner_nodes = inner_nodes + frag_nested(rng, px + "j", depth - 1)
    inner = {"nodes": inner_nodes, "edges": None, "name": f"{px}g", "strict": False}
    outs = graph_outputs(inner)
    o = outs[-1]
    oty = producer_type(inner, o)
    gn = {"name": f"{px}gn", "kind": "graph", "graph": inner, "out_rename": {}, "map_over": [], "in_rename": {}}
    cons_in = o
    if rng.random() < 0.5:
        gn["out_rename"] = {o: f"{px}ren"}
        cons_in = f"{px}ren"
    nodes = [gn]
    req = INT
    if oty is not None:
        req = next((r for p, r in COMPAT_PAIRS if p == oty), oty)
    nodes.append(fnode(f"{px}use", [cons_in], [f"{px}fin"], {cons_in: req}, {f"{px}fin": INT}))
    return nodes


def graph_outputs(g):
    outs = []
    for n in g["nodes"]:
        for o in node_outputs(n):
            if o not in outs:
                outs.append(o)
    return outs


def node_outputs(n):
    if n["kind"] == "graph":
        ren = n.get("out_rename", {})
        return [ren.get(o, o) for o in graph_outputs(n["graph"])]
    return list(n["outputs"]) + list(n.get("emit", []))


def producer_type(g, o):
    for n in g["nodes"]:
        if n["kind"] != "graph" and o in n["outputs"]:
            return n["out_ty"].get(o)
    return None


def gen_valid(rng, depth=2):
    nfr = rng.randint(1, 3)
    nodes = []
    for f in range(nfr):
        px = ("fa", "fb", "fc")[f]
        if depth > 0 and rng.random() < 0.3:
            nodes += frag_nested(rng, px, depth)
        else:
            nodes += rng.choice(FRAGS)(rng, px)
    # a parameter shared across fragments, all-or-none default
    funcs = [n for n in nodes if n["kind"] == "func"]
    if len(funcs) >= 2 and rng.random() < 0.6:
        users = rng.sample(funcs, rng.randint(2, min(3, len(funcs))))
        with_default = rng.random() < 0.5
        for n in users:
            n["inputs"].append("cfg")
            n["in_ty"]["cfg"] = INT
            if with_default:
                n["defaults"]["cfg"] = 7
    for n in funcs:
        if len(n["inputs"]) >= 2 and rng.random() < 0.5:
            n["via_swap"] = True
        if n["outputs"] and rng.random() < 0.3:
            n["via_out_rename"] = True
    if rng.random() < 0.5:
        rng.shuffle(nodes)
    g = {"nodes": nodes, "edges": None, "name": rng.choice([None, "top", "my-graph"]), "strict": rng.random() < 0.6}
    if rng.random() < 0.35 and not any(n["kind"] == "graph" for n in nodes):
        g["edges"] = explicit_edges_for(rng, g)
    return g


def explicit_edges_for(rng, g):
    """Declare the edges name matching would infer (first producer of each consumed value)."""
    first = {}
    for n in g["nodes"]:
        for o in node_outputs(n):
            first.setdefault(o, n["name"])
    per_pair = {}
    for n in g["nodes"]:
        for p in n.get("inputs", []):
            if p in first:
                per_pair.setdefault((first[p], n["name"]), []).append(p)
    edges = []
    for (s, d), vs in per_pair.items():
        edges.append([s, d, vs] if rng.random() < 0.6 else [s, d, None])
    return edges


# =========================================================================== real objects


def _fn(n, k, env):
    params = n["inputs"]
    parts = []
    for i, p in enumerate(params):
        s = p
        if p in n["in_ty"]:
            env[f"_ti{i}"] = py_of(n["in_ty"][p])
            s += f": _ti{i}"
        if p in n.get("defaults", {}):
            s += f" = {n['defaults'][p]!r}"
        parts.append(s)
    ret = ""
    outs = n["outputs"]
    if n["kind"] in ("func", "interrupt") and outs and all(o in n["out_ty"] for o in outs):
        if len(outs) == 1:
            env["_to"] = py_of(n["out_ty"][outs[0]])
        else:
            env["_to"] = tuple[tuple(py_of(n["out_ty"][o]) for o in outs)]
        ret = " -> _to"
    src = f"def f{k}({'*, ' + ', '.join(parts) if parts else ''}){ret}:\n    return None\n"
    exec(src, env)
    return env[f"f{k}"]


_counter = [0]


def build_node(n):
    import hypergraph as hg
    from hypergraph.nodes import FunctionNode, IfElseNode, RouteNode, InterruptNode

    _counter[0] += 1
    kind = n["kind"]
    emit = tuple(n.get("emit", [])) or None
    wait = tuple(n.get("wait_for", [])) or None
    tgt = lambda t: hg.END if t == "END" else t  # noqa: E731
    if kind == "graph":
        inner = build_graph(n["graph"])
        gn = inner.as_node(name=n["name"])
        if n.get("in_rename"):
            gn = gn.with_inputs(dict(n["in_rename"]))
        if n.get("out_rename"):
            gn = gn.with_outputs(dict(n["out_rename"]))
        if n.get("map_over"):
            gn = gn.map_over(*n["map_over"])
        if n.get("rename_to") is not None:
            gn = gn.with_name(n["rename_to"])          # the one way to a node name that as_node(name=...) itself rejects
        return gn
    outs = n["outputs"]
    if kind == "func" and (n.get("via_swap") or n.get("via_out_rename")):
        # the same node reached through renames applied to a node that has already been used (cached properties populated)
        m = copy.deepcopy(n)
        swap = {}
        if n.get("via_swap") and len(n["inputs"]) >= 2:
            p0, p1 = n["inputs"][0], n["inputs"][1]
            swap = {p0: p1, p1: p0}
            m["inputs"] = [swap.get(p, p) for p in n["inputs"]]
            m["in_ty"] = {swap.get(p, p): t for p, t in n["in_ty"].items()}
            m["defaults"] = {swap.get(p, p): v for p, v in n.get("defaults", {}).items()}
        oren = {}
        if n.get("via_out_rename") and outs:
            oren = {"orig_" + outs[0]: outs[0]}
            m["outputs"] = ["orig_" + outs[0]] + outs[1:]
            m["out_ty"] = {("orig_" + o if o == outs[0] else o): t for o, t in n["out_ty"].items()}
        f = _fn(m, _counter[0], {})
        mo = m["outputs"]
        node = FunctionNode(f, name=n["name"], output_name=tuple(mo) if len(mo) > 1 else mo[0] if mo else None, emit=emit, wait_for=wait)
        _touch(node)
        if swap:
            node = node.with_inputs(swap)
            _touch(node)
        if oren:
            node = node.with_outputs(oren)
        return node
    f = _fn(n, _counter[0], {})
    if kind == "func":
        out = tuple(outs) if len(outs) > 1 else (outs[0] if outs else None)
        return FunctionNode(f, name=n["name"], output_name=out, emit=emit, wait_for=wait)
    if kind == "ifelse":
        return IfElseNode(f, when_true=tgt(n["targets"][0]), when_false=tgt(n["targets"][1]), name=n["name"], emit=emit, wait_for=wait)
    if kind == "route":
        return RouteNode(f, targets=[tgt(t) for t in n["targets"]], multi_target=n.get("multi", False), name=n["name"], emit=emit, wait_for=wait)
    if kind == "interrupt":
        return InterruptNode(f, name=n["name"], output_name=outs[0], emit=emit, wait_for=wait)
    raise ValueError(kind)


def _touch(node):
    """Use the node the way a graph would: populate whatever it caches."""
    for p in node.inputs:
        node.get_input_type(p)
        node.has_default_for(p)
        node.has_signature_default_for(p)
    for o in node.outputs:
        node.get_output_type(o)
    _ = node.definition_hash, node.nx_attrs


def build_graph(g, real_nodes=None):
    from hypergraph import Graph

    nodes = real_nodes if real_nodes is not None else [build_node(n) for n in g["nodes"]]
    kw = {}
    if g.get("edges") is not None:
        kw["edges"] = [tuple(e) if len(e) != 3 else ((e[0], e[1], e[2]) if e[2] is not None else (e[0], e[1])) for e in g["edges"]]
    # the node collection may be any iterable: a list, a tuple, or a one-shot generator (deterministic choice per graph)
    how = len(canon(g.get("nodes") and [n.get("name") for n in g["nodes"]])) % 3
    coll = nodes if how == 0 else tuple(nodes) if how == 1 else (n for n in nodes)
    return Graph(coll, name=g.get("name"), strict_types=g.get("strict", False), **kw)


def construct(g):
    """-> (outcome, detail, real_nodes or None).  outcome: accepted | config | other | node-error."""
    from hypergraph.graph.validation import GraphConfigError

    try:
        real = [build_node(n) for n in g["nodes"]]
    except GraphConfigError as e:
        return "config-inner", str(e)[:160], None
    except Exception as e:  # noqa: BLE001
        return "node-error", f"{type(e).__name__}: {e}"[:200], None
    try:
        build_graph(g, real)
        return "accepted", "", real
    except GraphConfigError as e:
        return "config", str(e)[:160], real
    except Exception as e:  # noqa: BLE001
        return "other", f"{type(e).__module__}.{type(e).__name__}: {e}"[:200], real


# =========================================================================== Coq terms

_PY2T: dict = {}


def _py2t(pt):
    """Python type object -> type term (for what a GraphNode reports)."""
    if pt is None:
        return None
    if not _PY2T:
        for p, r in COMPAT_PAIRS:
            for t in (p, r):
                _PY2T[py_of(t)] = t
        for k, ws in WRONG_FOR.items():
            for t in [k] + ws:
                _PY2T[py_of(t)] = t
        for t in (INT, BOOL, STR, FLOAT, OBJ, NONE, TA, TB_, ANY):
            _PY2T[py_of(t)] = t
    if pt in _PY2T:
        return _PY2T[pt]
    if typing.get_origin(pt) is list and len(typing.get_args(pt)) == 1:
        inner = _py2t(typing.get_args(pt)[0])
        if inner is not None:
            return C("list", inner)
    if pt is list:
        return C("list")
    raise ValueError(f"type {pt!r} reported by a node is outside the universe")


def vnode_term(N, n, real):
    """One vnode.  Function / gate / interrupt nodes are described from the VDL; a GraphNode's interface (inputs, outputs,
    signature defaults, and the type LISTS get_input_types / get_output_types that the validator consumes) is read from the real
    wrapper (name sets: C05/C06/C08; the type lists themselves are derived from the inner structure in BoundaryTypes.v)."""
    kind = n["kind"]
    if kind == "graph":
        ins = list(real.inputs)
        outs = list(real.outputs)
        dfl = {p: real.get_signature_default_for(p) for p in ins if real.has_signature_default_for(p)}
        in_ty = {p: [_py2t(t) for t in real.get_input_types(p)] for p in ins}      # one entry per inner consumer
        out_ty = {o: [_py2t(t) for t in real.get_output_types(o)] for o in outs}   # one entry per inner producer
        k = f"(VKGraph {c_bool(bool(n.get('map_over')))} {c_bool(bool(real.graph.has_interrupts))})"
        wait, tg = [], []
    else:
        ins, outs = list(n["inputs"]), list(n["outputs"]) + list(n.get("emit", []))
        dfl = dict(n.get("defaults", {}))
        in_ty = {k_: [v_] for k_, v_ in n["in_ty"].items() if v_ is not None}
        out_ty = {k_: [v_] for k_, v_ in n["out_ty"].items() if v_ is not None} if all(o in n["out_ty"] for o in n["outputs"]) else {}
        k = {"func": "VKFunc", "ifelse": "VKIfElse", "interrupt": "VKInterrupt"}.get(kind) or f"(VKRoute {c_bool(n.get('multi', False))})"
        wait = list(n.get("wait_for", []))
        tg = [t for t in n.get("targets", []) if t != "END"]
    P = lambda xs: c_list([c_pos(N(x)) for x in xs])  # noqa: E731
    tyd = lambda d: c_list([c_pair(c_pos(N(a)), c_list([c_opt(t, lambda x: coq_ty(N, x)) for t in ts])) for a, ts in d.items()])  # noqa: E731
    nm = n["rename_to"] if (kind == "graph" and n.get("rename_to") is not None) else n["name"]
    return (f"(mk_vnode {c_pos(N(nm))} {k} {P(ins)} {P(outs)} {P(wait)} {P(tg)} {pdl.c_dictval(N, dfl)} false {tyd(in_ty)} {tyd(out_ty)})")


def vgraph_term(N, g, real_nodes):
    nodes = c_list([vnode_term(N, n, r) for n, r in zip(g["nodes"], real_nodes)])
    if g.get("edges") is None:
        es = "None"
    else:
        items = []
        for e in g["edges"]:
            vals = e[2] if len(e) == 3 else None
            if isinstance(vals, str):
                vals = [vals]
            items.append(f"(ESpec {c_pos(N(e[0]))} {c_pos(N(e[1]))} {c_opt(vals, lambda vs: c_list([c_pos(N(v)) for v in vs]))})")
        es = f"(Some {c_list(items)})"
    return f"(mk_vgraph {nodes} {es} {c_opt(g.get('name'), lambda s: c_pos(N(s)))} {c_bool(g.get('strict', False))})"


def ident_ok(s: str) -> bool:
    return s.isidentifier() and not keyword.iskeyword(s)


# =========================================================================== flaws


def _names(g):
    return [n["name"] for n in g["nodes"]]


def _positions(k, cap):
    if k <= cap:
        return list(range(k))
    return sorted({0, k - 1, k // 2} | set(range(0, k, max(1, k // cap))))[:cap + 2]


def flaws_at_level(g, cap):
    """(class, label, flawed copy) for every flaw class and (capped) position at this graph level."""
    out = []
    nodes = g["nodes"]

    def mod(i, fn, cls, label):
        h = copy.deepcopy(g)
        r = fn(h, h["nodes"][i])
        if r is not False:
            out.append((cls, label, h))

    for i, n in enumerate(nodes):
        nm = n["name"]
        if n["kind"] in ("ifelse", "route"):
            for k in range(len(n["targets"])):
                if n["targets"][k] == "END":
                    continue
                mod(i, lambda h, m, k=k: m["targets"].__setitem__(k, "ghost"), "gate_target", f"{nm}: target {k} -> unknown")
            if n["kind"] == "route":
                mod(i, lambda h, m: m["targets"].append("ghost"), "gate_target", f"{nm}: extra unknown target")
                mod(i, lambda h, m: m["targets"].insert(0, "ghost"), "gate_target", f"{nm}: unknown target first")
                mod(i, lambda h, m: m["targets"].append(m["name"]), "gate_self", f"{nm}: targets itself")
            else:
                mod(i, lambda h, m: m["targets"].__setitem__(0, m["name"]), "gate_self", f"{nm}: when_true is itself")
            if n["kind"] == "route" and not n.get("multi"):
                # the same gate made multi-target: its branches are no longer exclusive
                shared = [t for t in n["targets"] if t != "END"]
                outs = [set(node_outputs(x)) for x in nodes if x["name"] in shared]
                if len(outs) >= 2 and any(a & b for a, b in itertools.combinations(outs, 2)):
                    mod(i, lambda h, m: m.__setitem__("multi", True), "multi_target_shared", f"{nm}: multi_target with targets sharing an output")
        if n["kind"] != "graph":
            for bad in ("class", "a-b", "1x", "END"):
                def ren(h, m, bad=bad):
                    old = m["name"]
                    m["name"] = bad
                    for x in h["nodes"]:
                        if x.get("targets"):
                            x["targets"] = [bad if t == old else t for t in x["targets"]]
                    if h.get("edges"):
                        h["edges"] = [[bad if e[0] == old else e[0], bad if e[1] == old else e[1]] + list(e[2:]) for e in h["edges"]]
                mod(i, ren, "illegal_node_name", f"{nm} renamed {bad!r}")
            if n["kind"] in ("func", "interrupt"):
                for k, o in enumerate(n["outputs"]):
                    for bad in ("def", "a.b", "x y"):
                        def reno(h, m, k=k, bad=bad):
                            old = m["outputs"][k]
                            m["outputs"][k] = bad
                            if old in m["out_ty"]:
                                m["out_ty"][bad] = m["out_ty"].pop(old)
                            if h.get("edges"):
                                for e in h["edges"]:
                                    if len(e) == 3 and e[2] is not None and e[0] == m["name"]:
                                        e[2] = [v for v in e[2] if v != old]
                                h["edges"] = [e for e in h["edges"] if not (len(e) == 3 and e[2] == [])]
                        mod(i, reno, "illegal_output_name", f"{nm}: output {o} renamed {bad!r}")
            mod(i, lambda h, m: m["wait_for"].append("ghost_sig"), "wait_unknown", f"{nm}: waits for a name nobody produces")
            if n["kind"] == "func":
                for p in n["inputs"]:
                    users = [x for x in nodes if x["kind"] != "graph" and p in x["inputs"]]
                    if len(users) >= 2:
                        if p in n["defaults"]:
                            mod(i, lambda h, m, p=p: m["defaults"].pop(p), "defaults", f"{nm}: default of shared {p} removed")
                            mod(i, lambda h, m, p=p: m["defaults"].__setitem__(p, m["defaults"][p] + 1), "defaults", f"{nm}: default of shared {p} differs")
                        else:
                            mod(i, lambda h, m, p=p: m["defaults"].__setitem__(p, 3), "defaults", f"{nm}: only this user of {p} has a default")
        else:
            for k, o in enumerate(node_outputs(n)):
                def reng(h, m, o=o):
                    inv = {v: kk for kk, v in m.get("out_rename", {}).items()}
                    m.setdefault("out_rename", {})[inv.get(o, o)] = "class"
                mod(i, reng, "illegal_output_name", f"{nm}: GraphNode output {o} renamed 'class'")
            # GraphNode named like another node's output
            others = [o for x in nodes if x is not n for o in node_outputs(x) if ident_ok(o)]
            if others:
                def coll(h, m, others=others):
                    m["name"] = others[0]
                    m["graph"]["name"] = others[0]
                mod(i, coll, "namespace", f"{nm}: GraphNode named like the output {others[0]}")
    # duplicate node names
    for i in _positions(len(nodes), cap):
        for j in _positions(len(nodes), cap):
            if i != j and nodes[j]["kind"] != "graph" and nodes[i]["kind"] != "graph":
                mod(j, lambda h, m, i=i: m.__setitem__("name", h["nodes"][i]["name"]), "duplicate_node", f"{nodes[j]['name']} renamed like {nodes[i]['name']}")
    # a second, unordered, non-exclusive producer of an existing data output, inserted at several positions
    data_outs = [(n["name"], o) for n in nodes if n["kind"] == "func" for o in n["outputs"]]
    for (pn, o) in data_outs[: cap + 2]:
        for pos in sorted({0, len(nodes) // 2, len(nodes)}):
            h = copy.deepcopy(g)
            src = next(x for x in h["nodes"] if x["name"] == pn)
            clone = fnode("dupprod", ["dup_in"], [o], {"dup_in": INT}, {o: src["out_ty"].get(o)} if o in src["out_ty"] else {})
            h["nodes"].insert(pos, clone)
            out.append(("unordered_producers", f"second producer of {o} at position {pos}", h))
    # a third producer that conflicts only with a NON-adjacent producer in listing order
    for o in sorted({o for _, o in data_outs}):
        prods = [x for x in nodes if x["kind"] == "func" and o in x["outputs"]]
        if len(prods) < 2:
            continue
        h = copy.deepcopy(g)
        hp = [x for x in h["nodes"] if x["kind"] == "func" and o in x["outputs"]]
        a, b = hp[-2], hp[-1]
        oty = {o: b["out_ty"][o]} if o in b["out_ty"] else {}
        if b["name"].endswith("p1") and a["name"].endswith("p2"):
            # listing order [p2, p1]: the newcomer is downstream of p1 only, hence unordered with p2
            if b.get("emit"):
                third = fnode("dupprod", ["dup_in"], [o], {"dup_in": INT}, oty, wait_for=list(b["emit"]))
            else:
                t = [x for x in b["outputs"] if x != o][0]
                third = fnode("dupprod", [t], [o], {t: b["out_ty"].get(t, INT)}, oty)
        else:
            # the newcomer is upstream of the last-listed producer only
            third = fnode("dupprod", ["dup_in"], [o], {"dup_in": INT}, oty, emit=["dup_sig"])
            b["wait_for"] = list(b.get("wait_for", [])) + ["dup_sig"]
        h["nodes"].insert(h["nodes"].index(b) + 1, third)
        out.append(("unordered_producers", f"third producer of {o} ordered with its listing neighbour {b['name']} only", h))
    # ordered fragments: drop what orders the two producers
    for i, n in enumerate(nodes):
        if n["kind"] == "func" and n.get("wait_for") and any(o in [oo for x in nodes if x is not n and x["kind"] == "func" for oo in x["outputs"]] for o in n["outputs"]):
            mod(i, lambda h, m: m.__setitem__("wait_for", []), "unordered_producers", f"{n['name']}: wait_for that ordered two producers removed")
    # graph name
    for bad in ("a.b", "a/b"):
        h = copy.deepcopy(g)
        h["name"] = bad
        out.append(("graph_name", f"graph named {bad!r}", h))
    # explicit edges
    if g.get("edges") is not None:
        nm0 = nodes[0]["name"]
        for extra, lab in (([["ghost", nm0, None]], "unknown source"), ([[nm0, "ghost", None]], "unknown target"),
                           ([[nm0, nodes[-1]["name"], ["not_a_value"]]], "value that is not an output of the source")):
            h = copy.deepcopy(g)
            h["edges"] = h["edges"] + extra
            out.append(("explicit_edge", f"explicit edge with {lab}", h))
        for k, e in enumerate(g["edges"][: cap + 2]):
            h = copy.deepcopy(g)
            h["edges"][k] = ["ghost", e[1], None]
            out.append(("explicit_edge", f"edge {k}: unknown source", h))
            h = copy.deepcopy(g)
            h["edges"][k] = [e[0], "ghost", None]
            out.append(("explicit_edge", f"edge {k}: unknown target", h))
            src = next(x for x in nodes if x["name"] == e[0])
            dst = next(x for x in nodes if x["name"] == e[1])
            only_out = [o for o in node_outputs(src) if o not in dst.get("inputs", [])]
            if only_out:
                h = copy.deepcopy(g)
                h["edges"][k] = [e[0], e[1], [only_out[0]]]
                out.append(("explicit_edge", f"edge {k}: value is not an input of the target", h))
            only_in = [p for p in dst.get("inputs", []) if p not in node_outputs(src)]
            if only_in:
                h = copy.deepcopy(g)
                h["edges"][k] = [e[0], e[1], [only_in[0]]]
                out.append(("explicit_edge", f"edge {k}: value is not an output of the source", h))
    # a nested-graph node renamed to something that is no path component; an output name listed twice by one node; a wait on a name
    # that only the waiter itself produces
    for i, d in enumerate(nodes):
        if d["kind"] == "graph":
            targeted = any(d["name"] in x.get("targets", []) for x in nodes)
            if not targeted:
                for bad_nm in ("a.b", "x/y"):
                    mod(i, lambda h, m, bad_nm=bad_nm: m.__setitem__("rename_to", bad_nm), "graphnode_name", f"{d['name']}: renamed to {bad_nm!r} with with_name")
        elif d["kind"] == "func" and d["outputs"] and not d.get("via_swap") and not d.get("via_out_rename"):
            def dup(h, m):
                m["outputs"] = list(m["outputs"]) + [m["outputs"][0]]
            mod(i, dup, "repeated_output", f"{d['name']}: output {d['outputs'][0]!r} listed twice")
            sole = not any(x is not d and d["outputs"][0] in node_outputs(x) for x in nodes if x["kind"] != "graph")
            if not d.get("wait_for") and sole and d["outputs"][0] not in d["inputs"]:
                mod(i, lambda h, m: m.__setitem__("wait_for", [m["outputs"][0]]), "wait_own_output", f"{d['name']}: waits for its own output")
    # strict types
    if g.get("strict"):
        for i, d in enumerate(nodes):
            if d["kind"] == "graph":
                continue
            for v in d["inputs"]:
                prods = [x for x in nodes if x["kind"] != "graph" and v in x["outputs"]]
                if not prods or (g.get("edges") is not None and not any(e[1] == d["name"] and (e[2] is None or v in e[2]) for e in g["edges"])):
                    continue
                req = d["in_ty"].get(v)
                for s in prods:
                    si = nodes.index(s)
                    if req in WRONG_FOR and len(s["outputs"]) >= 1:
                        for w in WRONG_FOR[req][:2]:
                            mod(si, lambda h, m, v=v, w=w: m["out_ty"].__setitem__(v, w), "type_mismatch", f"{s['name']}.{v}: producer type made incompatible with {d['name']}")
                    mod(si, lambda h, m: m.__setitem__("out_ty", {}), "type_missing", f"{s['name']}: return annotation removed (feeds {d['name']}.{v})")
                mod(i, lambda h, m, v=v: m["in_ty"].pop(v), "type_missing", f"{d['name']}.{v}: parameter annotation removed")
    return out


def all_flaws(g, cap, path=()):
    """Flaws at this level and, recursively, inside every nested graph."""
    res = [(cls, lab, h, path) for cls, lab, h in flaws_at_level(g, cap)]
    for i, n in enumerate(g["nodes"]):
        if n["kind"] == "graph":
            for cls, lab, inner, p in all_flaws(n["graph"], cap, path + (n["name"],)):
                if cls == "graph_name":
                    continue  # a nested graph's name becomes the GraphNode name, checked by GraphNode itself
                h = copy.deepcopy(g)
                h["nodes"][i]["graph"] = inner
                res.append((cls, lab, h, p))
    return res


def at_path(g, path):
    for nm in path:
        g = next(n for n in g["nodes"] if n["name"] == nm)["graph"]
    return g


def strict_boundary_part(ctx):
    """Typed edges that CROSS a nested boundary (strict mode): an outer producer feeding a parameter that several inner nodes
    consume, and several exclusive inner producers of one output feeding an outer consumer, with the inner nodes listed in
    every order, the GraphNode possibly renamed.  The constructor's verdict must be the verdict on the SAME nodes in one flat
    graph, and both must be: accepted iff every (producer type, consumer type) pair is compatible."""
    import itertools
    from hypergraph import Graph
    from hypergraph.graph.validation import GraphConfigError
    from hypergraph.nodes import FunctionNode, IfElseNode
    rng = ctx.rng
    T = {"int": int, "str": str, "float": float}

    def fn(name, params, out, ret):
        src = f"def {name}({', '.join(params)}):\n    return 0\n"
        ns = {}
        exec(src, ns)  # noqa: S102 - generated from fixed names
        f = ns[name]
        f.__annotations__ = {**{p: T[t] for p, t in params.items() if t}, **({"return": T[ret]} if ret else {})}
        return FunctionNode(f, name=name, output_name=out)

    def verdict(build):
        try:
            build()
            return "accepted"
        except GraphConfigError as e:
            return "rejected:" + str(e).strip().split("\n")[0][:40]
        except Exception as e:  # noqa: BLE001
            return f"crash:{type(e).__name__}"
    n = 0
    for _ in range(ctx.n(60, 500)):
        direction = rng.choice(["consumers", "producers"])
        k = rng.randint(2, 3)
        tys = [rng.choice(["int", "int", "str", "float"]) for _ in range(k)]
        outer_ty = rng.choice(["int", "str"])
        perm = list(range(k))
        rng.shuffle(perm)
        rename = rng.random() < 0.3
        if direction == "consumers":
            prod = fn("prod", {}, "v", outer_ty)
            cons = [fn(f"c{i}", {"v": tys[i]}, f"o{i}", "int") for i in range(k)]
            inner_nodes = [cons[i] for i in perm]

            def nested():
                gn = Graph(inner_nodes, name="inner").as_node()
                if rename:
                    gn = gn.with_inputs(v="vv")
                    return Graph([fn("prod", {}, "vv", outer_ty), gn], strict_types=True)
                return Graph([prod, gn], strict_types=True)
            flat = lambda: Graph([prod] + inner_nodes, strict_types=True)  # noqa: E731
            expected_ok = all(t == outer_ty for t in tys)
        else:
            if k == 3:
                k = 2
                tys = tys[:2]
                perm = [p for p in perm if p < 2]

            def g_(c: int) -> bool:
                return c > 0
            gate = IfElseNode(g_, when_true="p0", when_false="p1", name="gate")
            prods = [fn(f"p{i}", {"c": "int"}, "w", tys[i]) for i in range(2)]
            inner_nodes = [gate] + [prods[i] for i in perm]
            use = fn("use", {"w": outer_ty}, "z", "int")

            def nested():
                gn = Graph(inner_nodes, name="inner").as_node()
                if rename:
                    gn = gn.with_outputs(w="ww")
                    return Graph([gn, fn("use", {"ww": outer_ty}, "z", "int")], strict_types=True)
                return Graph([gn, use], strict_types=True)
            flat = lambda: Graph(inner_nodes + [use], strict_types=True)  # noqa: E731
            expected_ok = all(t == outer_ty for t in tys)
        vn, vf = verdict(nested), verdict(flat)
        n += 2
        case = {"family": "strict_boundary", "direction": direction, "outer_type": outer_ty, "inner_types_in_list_order": [tys[i] for i in perm], "renamed": rename}
        if vn.startswith("crash") or vf.startswith("crash"):
            ctx.violation("oracle", f"constructor crashed: nested {vn}, flat {vf}", case=case)
        elif (vn == "accepted") != expected_ok:
            ctx.violation("oracle", f"strict_types across a nested boundary: the constructor {vn.split(':')[0]} a graph whose typed pairs are "
                          f"{'all compatible' if expected_ok else 'NOT all compatible'} (outer {outer_ty} vs inner {case['inner_types_in_list_order']}); "
                          f"the same nodes in one flat graph are {vf.split(':')[0]}", case=case)
        elif (vf == "accepted") != expected_ok:
            ctx.violation("oracle", f"strict_types on the flat graph: {vf} but pairs compatible = {expected_ok}", case=case)
    return n


def reused_wrapper_part(ctx):
    """One GraphNode object used twice (what as_node() is for): first in a strict graph as it is, then - derived with map_over /
    with_outputs / with_inputs - in a second strict graph.  The verdict on the second graph must be the verdict on the same
    graph built from a wrapper that was never used before, and must follow the typed pairs (a mapped output is list[T])."""
    from hypergraph import Graph
    from hypergraph.graph.validation import GraphConfigError
    from hypergraph.nodes import FunctionNode
    rng = ctx.rng
    T = {"int": int, "str": str, "list[int]": list[int], "list[str]": list[str]}

    def fn(name, params, out, ret):
        src = f"def {name}({', '.join(params)}):\n    return 0\n"
        ns = {}
        exec(src, ns)  # noqa: S102 - generated from fixed names
        f = ns[name]
        f.__annotations__ = {**{p: T[t] for p, t in params.items()}, "return": T[ret]}
        return FunctionNode(f, name=name, output_name=out)

    def verdict(build):
        try:
            build()
            return "accepted"
        except GraphConfigError as e:
            return "rejected:" + str(e).strip().split("\n")[0][:40]
        except Exception as e:  # noqa: BLE001
            return f"crash:{type(e).__name__}"
    n = 0
    for _ in range(ctx.n(30, 200)):
        base = rng.choice(["int", "str"])
        how = rng.choice(["map_over", "with_outputs", "with_inputs", "map_over+with_outputs"])
        want = rng.choice(["int", "str", "list[int]", "list[str]"])

        def wrapper():
            return Graph([fn("a", {"doc": base}, "mid", base), fn("b", {"mid": base}, "res", base)], name="inner").as_node()

        def derive(gn):
            out = "res"
            if "with_outputs" in how:
                gn, out = gn.with_outputs(res="res2"), "res2"
            if "map_over" in how:
                gn = gn.map_over("doc")
            if how == "with_inputs":
                gn = gn.with_inputs(doc="doc2")
            return gn, out

        def second(gn):
            d, out = derive(gn)
            extra = [fn("src", {}, "doc2", want)] if how == "with_inputs" else []
            use = [] if how == "with_inputs" else [fn("use", {out: want}, "z", "int")]
            return Graph(extra + [d] + use, strict_types=True)
        if how == "with_inputs":
            expected_ok = want == base
        else:
            expected_ok = want == (f"list[{base}]" if "map_over" in how else base)
        fresh = verdict(lambda: second(wrapper()))
        used = wrapper()
        first = verdict(lambda: Graph([used, fn("use1", {"res": base}, "z1", "int")], strict_types=True))
        again = verdict(lambda: second(used))
        n += 3
        case = {"family": "reused_wrapper", "derivation": how, "inner_type": base, "outer_type": want}
        if first != "accepted":
            ctx.violation("oracle", f"the wrapper used as it is in a correct strict graph: {first}", case=case)
        if (fresh == "accepted") != expected_ok:
            ctx.violation("oracle", f"strict graph with a {how} wrapper ({base} vs outer {want}): {fresh.split(':')[0]}, typed pairs compatible = {expected_ok}", case=case)
        if again.split(":")[0] != fresh.split(":")[0]:
            ctx.violation("oracle", f"the verdict depends on earlier use of the GraphNode: a {how} wrapper ({base} vs outer {want}) is {fresh.split(':')[0]} when "
                          f"fresh and {again} after the same object was placed in another strict graph", case=case)
    return n


def nested_interrupt_in_map_part(ctx):
    """A mapping GraphNode over a graph that holds an interrupt - directly, or one or two nested graphs further down - is a
    structural mistake (interrupts cannot be mapped): the constructor rejects it at every depth; the same graph without map_over,
    or with the interrupt replaced by a function node, is accepted."""
    from hypergraph import Graph
    from hypergraph.graph.validation import GraphConfigError
    from hypergraph.nodes import FunctionNode, InterruptNode
    n = 0
    for depth in (0, 1, 2):
        for with_interrupt in (True, False):
            for mapped in (True, False):
                def ask(x):
                    return None

                def plain(x):
                    return x
                leaf = InterruptNode(ask, name="ask", output_name="ans") if with_interrupt else FunctionNode(plain, name="ask", output_name="ans")
                g = Graph([leaf], name="lvl0")
                for d in range(depth):
                    g = Graph([g.as_node()], name=f"lvl{d + 1}")
                node = g.as_node()
                try:
                    if mapped:
                        node = node.map_over("x")
                    Graph([node])
                    verdict = "accepted"
                except GraphConfigError:
                    verdict = "rejected"
                except Exception as e:  # noqa: BLE001
                    verdict = f"crash:{type(e).__name__}"
                n += 1
                want = "rejected" if (with_interrupt and mapped) else "accepted"
                if verdict != want:
                    ctx.violation("oracle", f"a {'mapping ' if mapped else ''}GraphNode over a graph holding {'an interrupt' if with_interrupt else 'no interrupt'} "
                                  f"{depth} nested graph(s) further down was {verdict}, expected {want}",
                                  case={"family": "nested_interrupt_in_map", "depth": depth, "interrupt": with_interrupt, "mapped": mapped})
    return n


# =========================================================================== driver


def add_model_check(batch, N, i, g, real_nodes, outcome):
    names_used = set()

    def collect(gg):
        for n in gg["nodes"]:
            names_used.add(n["name"])
            names_used.update(node_outputs(n) if n["kind"] != "graph" else [])
    collect(g)
    for r, n in zip(real_nodes, g["nodes"]):
        if n["kind"] == "graph":
            names_used.update(r.outputs)
    bad = [s for s in sorted(names_used) if not ident_ok(s)]
    gbad = [g["name"]] if g.get("name") and ("." in g["name"] or "/" in g["name"]) else []
    # names of nested-graph NODES are path components too (no '.', no '/', not empty)
    for n_ in g["nodes"]:
        if n_["kind"] == "graph":
            nm_ = n_["rename_to"] if n_.get("rename_to") is not None else n_["name"]
            if nm_ == "" or "." in nm_ or "/" in nm_:
                gbad.append(nm_)
    batch.add_def(i, "g", vgraph_term(N, g, real_nodes), "vgraph")
    batch.add_def(i, "bad", c_list([c_pos(N(s)) for s in bad]), "list positive")
    batch.add_def(i, "gbad", c_list([c_pos(N(s)) for s in gbad]), "list positive")
    batch.add(i, 120, "Bool.eqb",
              f"valid (fun x => negb (pos_in x $bad)) (fun x => negb (pos_in x $gbad)) {c_pos(N('END'))} SUB ANYID $g",
              c_bool(outcome == "accepted"))


def producer_lattice(rng):
    """2-4 nodes producing subsets of two shared names, reading each other's values in random ways, some ordered by
    emit / wait_for, optionally behind an exclusive gate: whether every shared name is mutex-or-ordered is decided by
    Validate.valid (proved equivalent to the declarative WF), not known to the generator."""
    k = rng.randint(2, 4)
    shared = ["sx", "sy"]
    nodes = []
    for i in range(k):
        outs = [f"u{i}"] + [v for v in shared if rng.random() < 0.6]
        ins = [f"in{i}"]
        for v in shared + [f"u{j}" for j in range(k) if j != i]:
            if rng.random() < 0.3 and v not in outs:
                ins.append(v)
        n = fnode(f"P{i}", ins, outs, {p: INT for p in ins}, {o: INT for o in outs})
        if rng.random() < 0.3:
            n["emit"] = [f"sig{i}"]
        nodes.append(n)
    for i, n in enumerate(nodes):
        sigs = [f"sig{j}" for j, m in enumerate(nodes) if j != i and m["emit"]]
        if sigs and rng.random() < 0.4:
            n["wait_for"] = [rng.choice(sigs)]
    if k >= 2 and rng.random() < 0.45:
        names = [n["name"] for n in nodes]
        a, b = rng.sample(names, 2)
        nodes.append(gate("G", "ifelse", ["gin"], [a, b], {"gin": INT}))
        if rng.random() < 0.6:
            # a second, independent exclusive gate: being in branch i of one gate and branch j of ANOTHER excludes nothing
            rest = [x for x in names if x not in (a, b)]
            pool = rest if len(rest) >= 2 and rng.random() < 0.7 else names
            c, d = rng.sample(pool, 2)
            nodes.append(gate("G2", "ifelse", ["gin2"], [c, d], {"gin2": INT}))
    rng.shuffle(nodes)
    return {"nodes": nodes, "name": "lattice", "strict": False, "edges": None}


def run(ctx):
    rng = ctx.rng
    N = Names()
    tcov = check_types(ctx, N)
    batch = CoqBatch("C19", IMPORTS, shard=120, preamble=coq_preamble())
    cap = 3 if ctx.quick() else 6
    dist = {"valid": 0, "flaw_class": {}, "nested_flaws": 0, "explicit": 0, "strict": 0, "outcomes": {}}
    nontrivial = set()
    cases = {}
    ci = 0
    n_eval = 0
    samples = []
    from harness.props import c19_corpus
    bases = [copy.deepcopy(g) for g in c19_corpus.GRAPHS]
    for _ in range(ctx.n(28, 400)):
        bases.append(gen_valid(rng))
    for g in bases:
        oc, detail, real = construct(g)
        n_eval += 1
        if oc != "accepted":
            ctx.violation("oracle", f"a graph without any structural mistake is rejected ({oc}): {detail}", case={"graph": g})
            if real is None:
                continue
        dist["valid"] += 1
        dist["explicit"] += g.get("edges") is not None
        dist["strict"] += bool(g.get("strict"))
        try:
            add_model_check(batch, N, ci, g, real, oc)
            cases[ci] = ({"graph": g}, oc)
            ci += 1
        except ValueError as e:
            ctx.violation("harness", f"cannot describe the graph to the model: {e}", case={"graph": g})
        for cls, label, h, path in all_flaws(g, cap):
            oc2, detail2, real2 = construct(h)
            n_eval += 1
            dist["flaw_class"][cls] = dist["flaw_class"].get(cls, 0) + 1
            dist["nested_flaws"] += bool(path)
            dist["outcomes"][oc2] = dist["outcomes"].get(oc2, 0) + 1
            case = {"graph": h, "flaw": label, "class": cls, "inside": list(path)}
            if oc2 == "node-error":
                ctx.violation("harness", f"the flawed description could not be turned into nodes: {detail2}", case=case)
                continue
            rejected = oc2 in ("config", "config-inner")
            if not rejected:
                ctx.violation("oracle", f"[{cls}] {label}{' inside ' + '/'.join(path) if path else ''}: " +
                              ("the constructor ACCEPTED the graph" if oc2 == "accepted" else f"rejected with {detail2} instead of GraphConfigError"), case=case)
            nontrivial.add((cls, bool(path), g.get("edges") is not None, bool(g.get("strict"))))
            # the model decides the graph level that carries the flaw
            lvl = at_path(h, path)
            if path:
                oc3, _, real3 = construct(lvl)
            else:
                oc3, real3 = oc2, real2
            if real3 is None:
                continue
            try:
                add_model_check(batch, N, ci, lvl, real3, oc3)
                cases[ci] = (case, oc3)
                ci += 1
            except ValueError as e:
                ctx.violation("harness", f"cannot describe the graph to the model: {e}", case=case)
        if len(samples) < 2:
            samples.append({"nodes": [n["name"] for n in g["nodes"]], "explicit": g.get("edges") is not None, "strict": g.get("strict")})
    # graphs whose validity the generator does not know: the proved decision procedure is the oracle
    lattice = set()
    for _ in range(ctx.n(150, 2500)):
        g = producer_lattice(rng)
        oc, detail, real = construct(g)
        n_eval += 1
        if real is None or oc not in ("accepted", "config"):
            if oc != "node-error":
                ctx.violation("oracle", f"the constructor neither accepted the graph nor raised GraphConfigError: {detail}", case={"graph": g})
            continue
        dist["outcomes"]["lattice_" + oc] = dist["outcomes"].get("lattice_" + oc, 0) + 1
        try:
            add_model_check(batch, N, ci, g, real, oc)
            cases[ci] = ({"graph": g, "stream": "producer lattice"}, oc)
            lattice.add(ci)
            ci += 1
        except ValueError as e:
            ctx.violation("harness", f"cannot describe the graph to the model: {e}", case={"graph": g})
    res = batch.run()
    n_boundary = strict_boundary_part(ctx) + nested_interrupt_in_map_part(ctx) + reused_wrapper_part(ctx)
    n_eval += n_boundary
    dist["strict_boundary_constructions"] = n_boundary
    # the types a nested graph offers across its boundary, and the edge verdict, against coq/theories/BoundaryTypes.v
    from harness.props import c19_boundary
    n_bt, bt_stats = c19_boundary.boundary_model_part(ctx)
    n_eval += n_bt
    dist["boundary_types"] = bt_stats
    if res["error"]:
        ctx.violation("harness", res["error"])
    for (k, code, mv, real, mexp) in res["failed"]:
        case, oc = cases[k]
        if k in lattice:
            # Validate.valid <-> the declarative WF is a theorem (C19_validate_spec), so this is the specification speaking
            what = ("the constructor ACCEPTED a graph that is not well-formed (some shared output name has producers that are neither "
                    "mutually exclusive nor ordered, or another structural rule fails)") if oc == "accepted" else \
                   "the constructor REJECTED a well-formed graph (every shared output name is mutex-or-ordered and no other rule fails)"
            ctx.violation("oracle", what, case=case)
        else:
            ctx.violation("correspondence", f"Graph(...) outcome {oc!r} but Validate.valid = {mv.split(':')[0].strip()}", case=case)
    ctx.coverage.update(
        evaluations=n_eval + tcov["pairs"], distinct_nontrivial=len(nontrivial) + tcov["compatible_pairs"],
        rule="valid graphs from fragments (chain with shared parameter and emit/wait_for, exclusive ifelse/route branches with a downstream-exclusive producer, "
             "ordered producers via emit/wait_for or an intermediate value, cycle, multi-target route, interrupt, nested graph up to depth 2 with renamed output), "
             "auto or explicit edges, strict types on/off, node order shuffled; flaw classes x positions (capped per class) at every nesting level; "
             "producer lattices (2-4 nodes producing subsets of two shared names with random cross-reads, emit/wait_for and an optional exclusive gate) "
             "decided by the proved procedure; "
             "type universe: classes, Any, unions (both syntaxes), generics depth <= 2, Annotated, TypeVars, NoAnnotation, Unresolvable x all ordered pairs; "
             "non-trivial = distinct (flaw class, nested?, explicit?, strict?) + compatible type pairs",
        distribution={**dist, "types": tcov}, samples=samples, model_checks=len(batch))
    ctx.assumptions += ["a GraphNode's inputs / outputs / signature defaults / types are read from the real wrapper (their derivation is decided by C05, C06, C08)",
                        "str.isidentifier / keyword.iskeyword and the '.', '/' test are evaluated in Python and passed to the model as predicates",
                        "node-constructor errors (ValueError/TypeError raised by FunctionNode/RouteNode/IfElseNode themselves) are outside the Graph constructor and not injected"]


LEVEL = "proof"
TRUSTED_BASE = ["issubclass table over the chosen classes and the string predicates are computed in Python and handed to the model"]
