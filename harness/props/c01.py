"""C01 — acyclic, gate-free dataflow equals the dependency-order evaluation.

REAL: generated DAGs (shuffled node lists; every parameter source: edge / run-time / bound / default and
their overlaps) run on SyncRunner and AsyncRunner.
SPEC (codes < 100): SpecDenote.denote, a dependency-order evaluator with no versions/supersteps.
MODEL (codes >= 100): Engine.execute with the Exec.exec_basic executor.
"""
from __future__ import annotations

import copy

from harness import gen, pdl, engine
from harness.common import CoqBatch, Names, canon, c_bool


def make_case(rng, thorough=False):
    g = gen.gen_dag(rng, max_nodes=8 if thorough else 7, emits=0.5 if rng.random() < 0.25 else 0.0)
    G = engine.real_input_spec(g)
    spec = G.inputs
    # bind some optional / required inputs on the graph
    bound = {}
    for x in list(spec.required) + list(spec.optional):
        if rng.random() < 0.2:
            # falsy bindings too (None, 0): a binding counts by its presence, not by its value
            bound[x] = (0 if x in g.get("int_valued", []) else rng.choice([None, 0])) if rng.random() < 0.35 else rng.randint(20, 29)
    g["bound"] = bound
    gen.via_renames(rng, g, 0.25)
    required = [x for x in spec.required if x not in bound]
    optional = [x for x in list(spec.optional) + list(bound)]
    inputs = gen.complete_inputs(rng, g, required, optional, provide_optional=0.45)
    # occasionally leave a required input out of an otherwise valid run?  no: C08 owns rejection.
    run = {"runner": rng.choice(["sync", "async"]), "inputs": inputs, "error_handling": "continue"}
    outs = [o for n in g["nodes"] for o in n["outputs"]]
    if outs and rng.random() < 0.2:
        # the graph carries a default selection and the run asks for everything: every node still gets its bound / default
        # arguments, whatever the default selection would have needed
        g["selected"] = rng.sample(outs, rng.randint(1, min(2, len(outs))))
        run["select"] = "**"
    return g, run


def corpus():
    # seeded-mutant regressions: chain below a defaulted edge-fed parameter; None flowing over an edge
    g1 = {"nodes": [
        {"name": "source", "kind": "func", "inputs": ["seed"], "outputs": ["raw"], "emit": [], "wait_for": [], "defaults": {}, "fn": ["add", 1]},
        {"name": "scale", "kind": "func", "inputs": ["raw"], "outputs": ["scaled"], "emit": [], "wait_for": [], "defaults": {"raw": 10}, "fn": ["sym", "scale"]},
        {"name": "shift", "kind": "func", "inputs": ["scaled"], "outputs": ["shifted"], "emit": [], "wait_for": [], "defaults": {}, "fn": ["sym", "shift"]},
        {"name": "fmt", "kind": "func", "inputs": ["shifted"], "outputs": ["text"], "emit": [], "wait_for": [], "defaults": {}, "fn": ["sym", "fmt"]}],
        "bound": {}, "entrypoints": None, "selected": None}
    g2 = {"nodes": [
        {"name": "lookup", "kind": "func", "inputs": ["key"], "outputs": ["hit"], "emit": [], "wait_for": [], "defaults": {}, "fn": ["const", None]},
        {"name": "describe", "kind": "func", "inputs": ["hit"], "outputs": ["label"], "emit": [], "wait_for": [], "defaults": {"hit": 5}, "fn": ["sym", "describe"]},
        {"name": "tag", "kind": "func", "inputs": ["hit", "prefix"], "outputs": ["tagged"], "emit": [], "wait_for": [], "defaults": {"hit": 5, "prefix": 6}, "fn": ["sym", "tag"]}],
        "bound": {"prefix": 9}, "entrypoints": None, "selected": None}
    # a binding counts by its presence, not by its value: bind(stopwords=None) is the only source of `stopwords`
    g3 = {"nodes": [
        {"name": "tokenize", "kind": "func", "inputs": ["text"], "outputs": ["tokens"], "emit": [], "wait_for": [], "defaults": {}, "fn": ["sym", "tokenize"]},
        {"name": "drop", "kind": "func", "inputs": ["tokens", "stopwords"], "outputs": ["kept"], "emit": [], "wait_for": [], "defaults": {}, "fn": ["sym", "drop"]},
        {"name": "count", "kind": "func", "inputs": ["kept"], "outputs": ["n"], "emit": [], "wait_for": [], "defaults": {}, "fn": ["sym", "count"]}],
        "bound": {"stopwords": None}, "entrypoints": None, "selected": None}
    out = []
    for g, inputs in ((g1, {"seed": 1}), (g2, {"key": 3}), (g3, {"text": 2})):
        for runner in ("sync", "async"):
            out.append((copy.deepcopy(g), {"runner": runner, "inputs": inputs, "error_handling": "continue"}))
    return out


def equal_but_distinct_part(ctx):
    """Values that compare EQUAL in Python but are different objects of different kinds (1 / True / 1.0, 0 / False, () vs a
    NamedTuple ...) -- outside the model's value language on purpose (Base.v) and therefore decided by the oracle alone: the
    chain A() -> x ; C(x=<default>) -> y ; D(y) -> z must end with z computed from A's value, whatever the default of x is."""
    import asyncio
    from hypergraph import AsyncRunner, Graph, SyncRunner
    from hypergraph.nodes import FunctionNode
    pairs = [(1, True), (True, 1), (0, False), (1, 1.0), (2.0, 2), (0, -0.0), (1, 2), ("a", "a"), (None, 0), ((1,), (True,)), (3, 3)]
    n = 0
    for (dflt, up) in pairs:
        for runner in ("sync", "async"):
            for order in (0, 1, 2):
                def A(up=up):
                    return up

                def C(x=dflt):
                    return x

                def D(y):
                    return (type(y).__name__, repr(y))
                nodes = [FunctionNode(lambda up=up: up, name="A", output_name="x"), FunctionNode(C, name="C", output_name="y"),
                         FunctionNode(D, name="D", output_name="z")]
                nodes = nodes[order:] + nodes[:order]
                case = {"family": "equal_distinct_default", "default": repr(dflt), "upstream": repr(up), "runner": runner, "node_order": order,
                        "equal": bool(dflt == up), "same_kind": type(dflt) is type(up)}
                try:
                    G = Graph(nodes)
                    res = asyncio.run(AsyncRunner().run(G, {})) if runner == "async" else SyncRunner().run(G, {})
                    vals = dict(res.values)
                except Exception as e:  # noqa: BLE001
                    ctx.violation("oracle", f"chain with an upstream-fed default raised {type(e).__name__}: {e}", case=case)
                    continue
                n += 1
                want = (type(up).__name__, repr(up))
                if vals.get("z") != want or (type(vals.get("y")).__name__, repr(vals.get("y"))) != want:
                    ctx.violation("oracle", f"A() -> x={up!r}; C(x={dflt!r}) -> y; D(y) -> z returned y={vals.get('y')!r}, z={vals.get('z')!r}; "
                                  f"dependency-order evaluation gives y={up!r}, z={want!r}: the consumer of y was not re-run when y changed from "
                                  f"{dflt!r} to {up!r}", case=case)
    return n


def run(ctx):
    N = Names()
    batch = CoqBatch("C01", engine.IMPORTS, shard=160)
    n_cases = ctx.n(700, 6000)
    cases = corpus()
    while len(cases) < n_cases + 6:
        cases.append(make_case(ctx.rng, not ctx.quick()))
    seen, nontrivial = set(), set()
    dist = {"nodes": {}, "runner": {"sync": 0, "async": 0}, "edge_fed_defaults": 0, "bound": 0, "unsatisfiable_nodes": 0}
    obs_all = {}
    for i, (g, run_cfg) in enumerate(cases):
        rank = None
        if run_cfg["runner"] == "async":
            perm = {n["name"]: ctx.rng.random() for n in g["nodes"]}
            rank = lambda name, perm=perm: perm[name]  # noqa: E731
        obs = pdl.run_real(g, run_cfg, rank=rank)
        obs_all[i] = obs
        if obs["status"] == "raised":
            ctx.violation("oracle", f"run raised instead of returning a result: {obs['error_repr']}", case={"graph": g, "run": run_cfg})
            continue
        engine.define_case(batch, i, N, g, run_cfg)
        # ---- SPEC (property oracle)
        log = pdl.c_log(N, obs["log"])
        batch.add(i, 1, "Nat.eqb", "0%nat", f"{pdl.STATUS.get(obs['status'], 9)}%nat")  # a DAG with inputs supplied completes
        batch.add(i, 2, "dictV_eqb", "denote_values (exec_basic $ft $gt) $g $pv", pdl.c_dictval(N, obs["values"]))
        batch.add(i, 3, "Bool.eqb", f"runs_iff_evaluable $ft $gt $g $pv {log}", "true")
        batch.add(i, 4, "Bool.eqb", f"exactly_once $ft $gt $g $pv {log}", "true")
        batch.add(i, 5, "Bool.eqb", f"last_args_match $ft $gt $g $pv {log}", "true")
        # ---- MODEL (correspondence)
        engine.emit_model_checks(batch, i, N, g, run_cfg, obs, log_mode="exact" if run_cfg["runner"] == "sync" else "multiset")
        key = canon({"g": g["nodes"], "b": g["bound"], "in": run_cfg["inputs"], "r": run_cfg["runner"]})
        seen.add(key)
        nn = len(g["nodes"])
        dist["nodes"][nn] = dist["nodes"].get(nn, 0) + 1
        dist["runner"][run_cfg["runner"]] += 1
        produced = {o for n in g["nodes"] for o in n["outputs"]}
        efd = any(p in n["defaults"] and p in produced for n in g["nodes"] for p in n["inputs"])
        dist["edge_fed_defaults"] += int(efd)
        dist["bound"] += int(bool(g["bound"]))
        ran = {name for name, _ in obs["log"]}
        dist["unsatisfiable_nodes"] += int(len(ran) < nn)
        if nn >= 3 and any(p in produced for n in g["nodes"] for p in n["inputs"]):
            nontrivial.add(key)
    n_eq = equal_but_distinct_part(ctx)
    dist["equal_but_distinct_chains"] = n_eq
    res = batch.run()
    if res["error"]:
        ctx.violation("harness", res["error"])
    for (ci, code, mv, real, mexp) in res["failed"]:
        kind = "oracle" if code < 100 else "correspondence"
        g, run_cfg = cases[ci]
        ctx.violation(kind, f"check {code}: implementation {real} vs {'spec' if code < 100 else 'model'} {mv}",
                      case={"graph": g, "run": run_cfg}, observed=obs_all.get(ci), expr=mexp)
    ctx.coverage.update(
        evaluations=len(cases), coq_checks=res["n"], distinct_nontrivial=len(nontrivial),
        rule="random layered DAGs of 1-8 nodes (fan-in/out, diamonds, 0-3 outputs, side-effect-only nodes, shared inputs), node list "
             "shuffled; parameter sources drawn from edge/run-time/bound/default incl. overlaps; both runners (async under a random completion "
             "order); non-trivial = >=3 nodes with at least one data edge; distinct by canonical JSON; plus (oracle only) the chain A()->x; C(x=default)->y; D(y)->z over pairs of equal-but-distinct values "
             "(1/True/1.0, 0/False/-0.0, ...), both runners, three node orders",
        distribution=dist, samples=[{"graph": cases[5][0]["nodes"], "run": cases[5][1]}],
        traces_validated_against_impl=len(obs_all), disagreements_checked=res["n"])
    ctx.assumptions += ["node functions are drawn from the six-case expression language of Exec.v; 'sym' returns the free term of its arguments"]
