"""C11 — errors surface unwrapped; partial results are exactly the completed work.

ORACLE: every node of every generated program in turn (and pairs failing in one step) raises a fresh exception object;
the run must surface THAT object (identity), unwrapped, through nesting and through map in raise mode, or return a FAILED
result carrying it in continue mode.  The FAILED result's values must be values the failure-free reference run also
computes ("correct values of nodes that completed"), must contain no output of the failing node, and none of a node that
can only get its inputs through the failing node.
MODEL: error id, partial values and call log against Engine / Nested (superstep_sync partial = the nodes listed before the
failing one; async = all successful siblings).
"""
from __future__ import annotations

import copy

from harness import gen, pdl, engine
from harness.common import canon


def leaves(g, path=()):
    for n in g["nodes"]:
        if n["kind"] == "graph":
            yield from leaves(n["graph"], path + (n["name"],))
        elif n["kind"] in ("func", "ifelse", "route"):      # a gate's routing function is a node function too
            yield path, n


def with_failure(g, target_path, target_name, eid):
    g = copy.deepcopy(g)

    def walk(gg, path):
        for n in gg["nodes"]:
            if n["kind"] == "graph":
                walk(n["graph"], path + (n["name"],))
            elif path == target_path and n["name"] == target_name:
                n["fn"] = ["raise", eid]
    walk(g, ())
    return g


def strictly_downstream(g, failing):
    """Top-level names that can only be produced through the failing node: outputs of nodes all of whose ways to get some
    input lead through the failing node (no default, not bound, not supplied)."""
    import networkx as nx
    D = gen._data_graph(g)
    return D


def equal_rewrite_part(ctx):
    """Exactly the completed work: a node that COMPLETED before the failure has its output in the FAILED result - also when the
    value it wrote equals the one the caller had supplied under that name (a cycle seed rewritten unchanged)."""
    import asyncio
    from hypergraph import AsyncRunner, Graph, SyncRunner
    from hypergraph.nodes import FunctionNode
    rng = ctx.rng
    n = 0
    for _ in range(ctx.n(6, 40)):
        v = rng.choice([0, 1, 7, "s", (1, 2)])
        calls = []

        def keep(x):
            calls.append("keep")
            return x                      # rewrites the seed with an equal value

        def double(x):
            calls.append("double")
            return (x, x)

        def boom(d):
            raise KeyError("boom")
        g = Graph([FunctionNode(keep, name="keep", output_name="x"), FunctionNode(double, name="double", output_name="d"),
                   FunctionNode(boom, name="boom", output_name="z")])
        is_async = rng.random() < 0.5
        try:
            r = asyncio.run(AsyncRunner().run(g, {"x": v}, error_handling="continue")) if is_async else SyncRunner().run(g, {"x": v}, error_handling="continue")
        except Exception as e:  # noqa: BLE001
            ctx.violation("oracle", f"equal rewrite: continue mode raised {type(e).__name__}", case={"family": "equal_rewrite", "seed": repr(v)})
            continue
        n += 1
        vals = dict(r.values)
        case = {"family": "equal_rewrite", "seed": repr(v), "runner": "async" if is_async else "sync"}
        if "keep" in calls and "x" not in vals:
            ctx.violation("oracle", f"node keep completed (it rewrote x with the equal value {v!r}) but 'x' is missing from the FAILED result {vals}", case=case)
        if "double" in calls and vals.get("d") != (v, v):
            ctx.violation("oracle", f"node double completed but the FAILED result holds d={vals.get('d')!r}", case=case)
    return n


def run(ctx):
    rng = ctx.rng
    cases, meta = [], []
    dist = {"family": {}, "nested": 0, "pairs": 0, "raise_mode": 0}
    target = ctx.n(600, 5000)
    while len(cases) < target:
        fam = rng.choice(["dag", "dag", "gated", "loop", "nested", "nested", "emit"])
        if fam == "nested":
            base = gen.gen_dag(rng, max_nodes=6, edge_defaults=0.0)
            g0 = base
            for lvl in range(rng.choice([1, 2, 3])):
                S = gen.convex_subset(rng, g0)
                if not S:
                    break
                g0 = gen.nest(rng, g0, S, f"w{lvl}")
            dist["nested"] += 1
        else:
            g0, _ = gen.gen_program(rng, fam)
        try:
            inputs = gen.make_inputs(rng, g0)
        except Exception:  # noqa: BLE001
            continue
        dist["family"][fam] = dist["family"].get(fam, 0) + 1
        lv = list(leaves(g0))
        if not lv:
            continue
        runner = rng.choice(["sync", "async"])
        ref_rc = {"runner": runner, "inputs": inputs, "error_handling": "continue", "max_iterations": 40, "sched_seed": rng.randint(0, 10**6)}
        ref = pdl.run_real(g0, ref_rc)
        picks = rng.sample(lv, min(len(lv), 3))
        for (path, n) in picks:
            gf = with_failure(g0, path, n["name"], 500)
            second = None
            if rng.random() < 0.25 and len(lv) > 1:
                (p2, n2) = rng.choice([x for x in lv if x[1]["name"] != n["name"]])
                gf = with_failure(gf, p2, n2["name"], 501)
                second = n2["name"]
                dist["pairs"] += 1
            eh = rng.choice(["continue", "continue", "raise"])
            dist["raise_mode"] += int(eh == "raise")
            rc = dict(ref_rc, error_handling=eh)
            if second is None and not path and len(n.get("outputs", [])) == 1 and n["inputs"] and not n.get("emit") and rng.random() < 0.08:
                # the failing function is an interrupt's handler (interrupts need the asynchronous runner)
                for nn in gf["nodes"]:
                    if nn["name"] == n["name"]:
                        nn["kind"] = "interrupt"
                rc["runner"] = "async"
                dist["interrupt_handler"] = dist.get("interrupt_handler", 0) + 1
            if eh == "raise":
                rc["allow_raise"] = True
            if rng.random() < 0.06 and eh == "continue":
                # the node function raises a StopIteration (known finding F-l under the asynchronous runner)
                rc["stop_iteration"] = True
                dist["stop_iteration"] = dist.get("stop_iteration", 0) + 1
            if rng.random() < 0.3:
                outs = [o for nn in gf["nodes"] for o in gen.iface(nn)[1]]
                if outs:
                    rc["select"] = rng.sample(outs, rng.randint(1, min(3, len(outs))))
                    rc["on_missing"] = rng.choice(["ignore", "warn", "error"])
                    rc["allow_raise"] = True
            cases.append((gf, rc))
            meta.append({"failing": n["name"], "second": second, "path": path, "ref": ref, "flat": g0, "fam": fam, "eh": eh})
    nontrivial = set()

    def extra(i, g, rc, obs, batch, N):
        md = meta[i]
        msgs = []
        ref = md["ref"]
        ran_failing = any(nm in (md["failing"], md["second"]) for nm, _ in obs["log"])
        from harness.props.c16 import missing_error
        if not ran_failing:
            # the failing node never started (gated off / unsatisfiable): nothing to surface
            return msgs
        if missing_error(obs):
            # a node raised, so the call must surface THAT error (or a FAILED result carrying it); the strict
            # on_missing check applies to completed runs only and must not replace the node's error
            msgs.append(f"node {md['failing']} raised, but the call raised the on_missing error instead: {obs.get('error_repr')}")
            return msgs
        if obs["status"] not in ("failed", "raised"):
            msgs.append(f"node {md['failing']} raised but the run ended {obs['status']}")
            return msgs
        if obs["error"] not in (500, 501):
            msgs.append(f"the run surfaces {obs.get('error_repr')} instead of the exception the node raised")
        elif not obs.get("error_is_raised_object", True):
            msgs.append("the surfaced exception is not the object the node function raised (wrapped or re-created)")
        if rc["error_handling"] == "raise" and obs["status"] != "raised":
            msgs.append(f"error_handling='raise' but the call returned status {obs['status']}")
        if rc["error_handling"] == "continue" and obs["status"] != "failed":
            msgs.append(f"error_handling='continue' but the call {obs['status']} ({obs.get('error_repr')})")
        if obs["status"] == "failed":
            nontrivial.add(engine.program_key(g, rc))
            failing_outs = set()
            for path, n in leaves(g):
                # (an output name may legitimately hold the caller's seed or the value of an EARLIER completed execution)
                if n["fn"][0] == "raise" and not path and sum(1 for nm, _ in obs["log"] if nm == n["name"]) == 1:
                    failing_outs |= set(pdl.node_outputs(n)) - set(rc["inputs"])
            # exactly the completed work: a top-level node that completed has its outputs in the result
            if rc.get("select") is None:         # (every family: a completed node's outputs stay in the state, loops and gated graphs included)
                done = {nm for nm, _ in obs["log"]}
                for nn in g["nodes"]:
                    if nn["kind"] == "func" and nn["name"] in done and nn["fn"][0] != "raise":
                        for o in nn.get("outputs", []):
                            if o not in obs["values"]:
                                msgs.append(f"node {nn['name']} completed but its output {o!r} is missing from the FAILED result")
            for k, v in obs["values"].items():
                if k in failing_outs and not (ref["status"] == "completed" and False):
                    msgs.append(f"FAILED result holds {k!r}, an output of the failing node")
                elif ref["status"] == "completed" and md["fam"] in ("dag", "nested", "emit") and k in ref["values"] and ref["values"][k] != v \
                        and not upstream_has_default(md["flat"], k):
                    msgs.append(f"FAILED result holds {k}={v!r}; the failure-free run computes {ref['values'][k]!r}")
        return msgs

    from harness.props.c16 import missing_error
    n_equal = equal_rewrite_part(ctx)
    obs_all, res = engine.run_cases(ctx, "C11", cases, extra=extra, want_model=lambda g, rc, obs: not missing_error(obs) and not any(
                                          n["kind"] == "interrupt" and n.get("fn", [None])[0] == "raise" for n in g["nodes"])
                                          and not (rc.get("stop_iteration") and rc.get("runner") == "async"))
    ctx.coverage.update(
        evaluations=len(cases) + n_equal, coq_checks=res["n"], distinct_nontrivial=len(nontrivial),
        rule="dag / gated / loop / emit programs and DAGs nested to depth 1-3; each of up to three nodes in turn (25% together with a second "
             "node) replaced by a function raising a fresh exception object; error_handling continue and raise; both runners; "
             "non-trivial = the failing node actually ran and a FAILED result was returned",
        distribution=dist, samples=[{"graph": cases[0][0]["nodes"], "run": cases[0][1]}] if cases else [],
        traces_validated_against_impl=len(obs_all), disagreements_checked=res["n"])


def upstream_has_default(g, name):
    """True if the producer of `name` (or something upstream of it) has a default on an upstream-fed parameter: its value may then
    legitimately be an early one computed from the default."""
    produced = {}
    for path, n in leaves(g):
        for o in pdl.node_outputs(n):
            produced[o] = n
    seen, stack = set(), [name]
    while stack:
        x = stack.pop()
        if x in seen or x not in produced:
            continue
        seen.add(x)
        n = produced[x]
        if any(p in produced for p in n.get("defaults", {})):
            return True
        stack.extend(n["inputs"])
    return False
