"""C03 — a gated node runs only while a controlling gate selects it.

ORACLE (on the implementation's own event stream): every start of a gated node is justified by the most
recent decision of one of its controlling gates, or by a default-open controlling gate that has not
completed yet in this run; a gate and its target never start in the same step.
MODEL: exact call sequence / values / status against Engine.execute; the theorems of coq/props/C03.v say
every ready list of the model obeys the rule.
"""
from __future__ import annotations

import copy

from harness import gen, pdl, engine


def gate_targets(n):
    if n["kind"] == "ifelse":
        return [t for t in (n["when_true"], n["when_false"]) if t != "END"]
    if n["kind"] == "route":
        return [t for t in n["targets"] if t != "END"]
    return []


def names_decision(dec, t):
    if dec is None or dec == "END":
        return False
    if isinstance(dec, list):
        return t in dec
    return dec == t


def oracle_events(g, obs):
    bad = []
    nodes = {n["name"]: n for n in g["nodes"]}
    ctrl = {}
    for n in g["nodes"]:
        for t in gate_targets(n):
            if t in nodes:
                ctrl.setdefault(t, []).append(n["name"])
    last, done = {}, set()
    open_spans = {}
    for ev in obs.get("events", []):
        ty, name = ev["type"], ev.get("node_name")
        if ty == "NodeStartEvent":
            gs = ctrl.get(name, [])
            if gs:
                ok = any(names_decision(last.get(G), name) or
                         (G not in last and G not in done and nodes[G].get("default_open", True)) for G in gs)
                if not ok:
                    bad.append(f"gated node {name} started although no controlling gate selects it "
                               f"(latest decisions {dict((G, last.get(G, '<none>')) for G in gs)}, completed gates {sorted(done & set(gs))})")
                # a gate that is running right now must not see its target start (gate decides first)
                for G in gs:
                    if G in open_spans.values() and G != name:
                        bad.append(f"target {name} started while its gate {G} was executing in the same step")
            open_spans[ev["span"]] = name
        elif ty == "RouteDecisionEvent":
            last[name] = ev.get("decision")
        elif ty in ("NodeEndEvent", "NodeErrorEvent"):
            nm = open_spans.pop(ev["span"], name)
            if nm in nodes and nodes[nm]["kind"] in ("ifelse", "route") and ty == "NodeEndEvent":
                done.add(nm)
    return bad


def oracle_exact_branches(g, rc, obs):
    """For a gate runnable no later than its targets (all inputs supplied by the caller, no wait_for, every gate
    above it default-open and selecting it with its single decision) exactly the selected branches execute: a target controlled by that gate alone and
    never named by any of its decisions must not run at all."""
    bad = []
    nodes = {n["name"]: n for n in g["nodes"]}
    ctrl = {}
    for n in g["nodes"]:
        for t in gate_targets(n):
            if t in nodes:
                ctrl.setdefault(t, []).append(n["name"])
    started = {}
    decisions = {}
    for ev in obs.get("events", []):
        if ev["type"] == "NodeStartEvent":
            started[ev["node_name"]] = started.get(ev["node_name"], 0) + 1
        elif ev["type"] == "RouteDecisionEvent":
            decisions.setdefault(ev["node_name"], []).append(ev.get("decision"))
    for G, n in nodes.items():
        if n["kind"] not in ("ifelse", "route") or n.get("wait_for"):
            continue
        if not all(p in rc["inputs"] for p in n["inputs"]):
            continue
        # gates above G: default-open, decided exactly once, and that decision selected G
        if not all(nodes[H].get("default_open", True) and len(decisions.get(H, [])) == 1 and names_decision(decisions[H][0], G)
                   for H in ctrl.get(G, [])):
            continue
        if not decisions.get(G):
            continue
        for t in gate_targets(n):
            if t == G or ctrl.get(t) != [G]:
                continue
            if started.get(t, 0) > 0 and not any(names_decision(d, t) for d in decisions.get(G, [])):
                bad.append(f"target {t} ran although its only gate {G} (runnable from the start) never selected it "
                           f"(decisions {decisions.get(G, [])})")
    return bad


def oracle_selected_runs(g, rc, obs):
    """The other half of "exactly the selected branches execute": a target whose inputs all come from the caller and that a gate
    runnable from the start (see oracle_exact_branches) names in its single decision DOES run - whatever the other gates that
    share the target decided (a node starts if SOME controlling gate's latest decision names it)."""
    if obs.get("status") != "completed" or g.get("loop") or g.get("entrypoints") or g.get("selected"):
        return []
    bad = []
    nodes = {n["name"]: n for n in g["nodes"]}
    produced = {o for n in g["nodes"] for o in list(n.get("outputs", [])) + list(n.get("emit", []))}
    ctrl = {}
    for n in g["nodes"]:
        for t in gate_targets(n):
            if t in nodes:
                ctrl.setdefault(t, []).append(n["name"])
    started, decisions = {}, {}
    for ev in obs.get("events", []):
        if ev["type"] == "NodeStartEvent":
            started[ev["node_name"]] = started.get(ev["node_name"], 0) + 1
        elif ev["type"] == "RouteDecisionEvent":
            decisions.setdefault(ev["node_name"], []).append(ev.get("decision"))
    for G, n in nodes.items():
        if n["kind"] not in ("ifelse", "route") or n.get("wait_for") or not all(p in rc["inputs"] and p not in produced for p in n["inputs"]):
            continue
        if not all(nodes[H].get("default_open", True) and len(decisions.get(H, [])) == 1 and names_decision(decisions[H][0], G)
                   for H in ctrl.get(G, [])):
            continue
        if len(decisions.get(G, [])) != 1:
            continue
        for t in gate_targets(n):
            tn = nodes.get(t)
            if tn is None or t == G or tn.get("wait_for") or tn["kind"] not in ("func",):
                continue
            if not all((p in rc["inputs"] or p in tn.get("defaults", {}) or p in g.get("bound", {})) and p not in produced for p in tn["inputs"]):
                continue
            if names_decision(decisions[G][0], t) and not started.get(t):
                others = {H: decisions.get(H, ["<none>"])[-1] for H in ctrl.get(t, []) if H != G}
                bad.append(f"gate {G} selected {t} (decision {decisions[G][0]!r}) but {t} never started although all its inputs were supplied "
                           f"(other gates of {t} decided {others})")
    return bad


def oracle_pass_per_decision(g, obs):
    """A loop body whose only gate is the loop gate: every pass after the first (which a default-open gate that has not decided
    yet allows) needs a decision of its own - the gate decides before its target runs again.  So the first body node starts at
    most (1 if the gate is default-open) + (number of decisions naming it) times; more means the target ran again unchecked."""
    lp = g.get("loop") or {}
    if not lp or lp.get("family") or lp.get("accum"):
        return []
    nodes = {n["name"]: n for n in g["nodes"]}
    gates = [n["name"] for n in g["nodes"] if "b1" in gate_targets(n)]
    if "b1" not in nodes or len(gates) != 1:
        return []
    G = gates[0]
    runs = sum(1 for ev in obs.get("events", []) if ev["type"] == "NodeStartEvent" and ev.get("node_name") == "b1")
    named = sum(1 for ev in obs.get("events", []) if ev["type"] == "RouteDecisionEvent" and ev.get("node_name") == G and names_decision(ev.get("decision"), "b1"))
    allowed = named + (1 if nodes[G].get("default_open", True) else 0)
    if runs > allowed:
        return [f"loop body b1 started {runs} times but its only gate {G} named it in {named} decisions "
                f"({'default-open: one pass before the first decision' if allowed > named else 'closed by default'}): it ran again without the gate deciding first"]
    return []


def make_case(rng):
    fam = rng.choice(["gated", "gated", "gated", "loop", "loop_sync", "gated_loop", "late_signal"])
    if fam == "late_signal":
        # closed-by-default gate waiting on a signal that is re-emitted one superstep AFTER its data input changed:
        # the standing decision is stale in between and must not let the target through again
        from harness.props.c04 import late_signal_loop
        g = late_signal_loop(rng, rng.randint(1, 3), rng.randint(0, 5), rng.choice(["route", "ifelse"]))
    elif fam == "gated_loop":
        g = gen.add_gates(rng, gen.gen_loop(rng, accum=False), n_gates=1)
    else:
        g, _ = gen.gen_program(rng, fam)
    if rng.random() < 0.3:
        g["explicit_edges"] = rng.choice([True, "with_gate_edges"])
    return g, fam


def corpus():
    # chained gates, all runnable together (seeded mutant: a held-back gate must still hold back its targets)
    nodes = [
        {"name": "outer", "kind": "ifelse", "inputs": ["c0"], "outputs": [], "emit": [], "wait_for": [], "defaults": {}, "fn": ["glt", 1],
         "when_true": "inner", "when_false": "END", "default_open": True},
        {"name": "inner", "kind": "route", "inputs": ["c1"], "outputs": [], "emit": [], "wait_for": [], "defaults": {}, "fn": ["gtable", [[0, "ba"], [1, "bb"]], None],
         "targets": ["ba", "bb"], "multi": False, "fallback": None, "default_open": True},
        {"name": "ba", "kind": "func", "inputs": ["x"], "outputs": ["a_out"], "emit": [], "wait_for": [], "defaults": {}, "fn": ["sym", "ba"]},
        {"name": "bb", "kind": "func", "inputs": ["x"], "outputs": ["b_out"], "emit": [], "wait_for": [], "defaults": {}, "fn": ["sym", "bb"]},
    ]
    g = {"nodes": nodes, "bound": {}, "entrypoints": None, "selected": None}
    out = []
    for runner in ("sync", "async"):
        out.append((copy.deepcopy(g), {"runner": runner, "inputs": {"c0": 0, "c1": 1, "x": 5}, "error_handling": "continue", "max_iterations": 40, "events": True}))
    return out


def sample_program_part(ctx):
    """The routed fan of theorem C03_run_routes / C03_model_routes (Samples.gated: gate(c) -> B | C | END, closed by default),
    run on the implementation for every decision, both runners and budgets 1, 2, 3, 20; status, call order and which branch
    outputs exist are compared with the model program's own run (GateRun.gated_obs)."""
    from harness.common import c_list, c_pos, c_nat, c_Z, c_bool
    NAME = {"B": 11, "gate": 13, "C": 12}
    g = {"nodes": [
        {"name": "B", "kind": "func", "inputs": ["x"], "outputs": ["b"], "emit": [], "wait_for": [], "defaults": {}, "fn": ["sym", "B"]},
        {"name": "gate", "kind": "route", "inputs": ["c"], "outputs": [], "emit": [], "wait_for": [], "defaults": {}, "fn": ["gtable", [[0, "B"], [1, "C"]], "END"],
         "targets": ["B", "C", "END"], "multi": False, "fallback": None, "default_open": False},
        {"name": "C", "kind": "func", "inputs": ["x"], "outputs": ["c2"], "emit": [], "wait_for": [], "defaults": {}, "fn": ["sym", "C"]}],
        "bound": {}, "entrypoints": None, "selected": None}
    items = []
    for c in (0, 1, 2, -1):
        for runner in ("sync", "async"):
            for fuel in (1, 2, 3, 20):
                x = ctx.rng.randint(0, 9)
                rc = {"runner": runner, "inputs": {"x": x, "c": c}, "error_handling": "continue", "max_iterations": fuel}
                obs = pdl.run_real(g, rc)
                if obs["status"] not in ("completed", "failed"):
                    ctx.violation("oracle", f"the routed fan ended {obs['status']}: {obs.get('error_repr')}", case={"graph": g, "run": rc})
                    continue
                real = (f"({c_nat(0 if obs['status'] == 'completed' else 1)}, {c_list([c_pos(NAME[nm]) for nm, _ in obs['log']])}, "
                        f"{c_bool('b' in obs['values'])}, {c_bool('c2' in obs['values'])})")
                rn = "Sync" if runner == "sync" else "Async"
                items.append(({"graph": g, "run": rc}, 130, "gated_obs_eqb", f"gated_obs {rn} {c_nat(fuel)} {c_Z(x)} {c_Z(c)}", real))
                # ... and the returned values themselves, names pinned to the model program's (B = 11, C = 12, b = 32, c2 = 33)
                from harness.common import Names
                PN = Names()
                PN.fwd = {"B": 11, "C": 12, "gate": 13, "x": 1, "c": 2, "b": 32, "c2": 33}
                PN.bwd = {v: k for k, v in PN.fwd.items()}
                items.append(({"graph": g, "run": rc}, 132, "dictV_eqb",
                              f"collect_all gated (match fst (execute (exec_basic gated_ft gated_gt) {rn} {c_nat(fuel)} gated (pv0 {c_Z(x)} {c_Z(c)})) with "
                              f"RDone s => s | RFailed _ s => s | RPaused _ s => s end)", pdl.c_dictval(PN, obs["values"])))
    return engine.run_model_programs(ctx, "C03", ["Samples", "GateRun"], items)


def run(ctx):
    rng = ctx.rng
    cases = corpus()
    dist = {"family": {}, "explicit_edges": 0}
    for _ in range(ctx.n(600, 4000)):
        g, fam = make_case(rng)
        try:
            inputs = gen.make_inputs(rng, g)
        except Exception:  # noqa: BLE001
            continue
        if fam == "late_signal":
            inputs = {"x": 0}       # the iteration count of the sequential loop is stated for this start value
        dist["family"][fam] = dist["family"].get(fam, 0) + 1
        dist["explicit_edges"] += int(bool(g.get("explicit_edges")))
        rc = {"runner": rng.choice(["sync", "sync", "async"]), "inputs": inputs, "error_handling": "continue", "max_iterations": 50,
              "events": True, "sched_seed": rng.randint(0, 10**6), "fresh_rank": True}
        cases.append((g, rc))
    nontrivial = set()

    def extra(i, g, rc, obs, batch, N):
        msgs = oracle_events(g, obs) + oracle_exact_branches(g, rc, obs) + oracle_selected_runs(g, rc, obs) + oracle_pass_per_decision(g, obs)
        lp = g.get("loop") or {}
        if lp.get("family") == "L3" and obs["status"] == "completed":
            # one body pass per decision that selects it: the sequential while loop
            for j in range(1, lp["m"] + 1):
                k = sum(1 for nm, _ in obs["log"] if nm == f"b{j}")
                if k != lp["N"]:
                    msgs.append(f"b{j} ran {k} times although the gate selected the body {lp['N']} times (a stale decision let it through again)")
        gated_started = sum(1 for ev in obs.get("events", []) if ev["type"] == "RouteDecisionEvent")
        if gated_started:
            nontrivial.add(engine.program_key(g, rc))
        return msgs

    n_model_programs = sample_program_part(ctx)
    # gates that share one routing function and one cache still route by their OWN targets (a restored decision of another gate
    # would run a node its gate does not select)
    from harness.props.c09 import same_gate_function_part
    n_model_programs += same_gate_function_part(ctx)
    obs_all, res = engine.run_cases(ctx, "C03", cases, extra=extra)
    ctx.coverage.update(
        evaluations=len(cases) + n_model_programs, coq_checks=res["n"], distinct_nontrivial=len(nontrivial),
        rule="DAGs decorated with 1-3 if/else and route gates (single/multi target, fallback, None, END, default_open both ways, "
             "shared targets, chained gates, gate inputs arriving before/with/after the targets' inputs), loops L1/L2 and loops with an "
             "extra gate; 30% declared with explicit edges; non-trivial = at least one routing decision was made",
        distribution=dist, samples=[{"graph": cases[3][0]["nodes"], "run": cases[3][1]}],
        traces_validated_against_impl=len(obs_all), disagreements_checked=res["n"])
    ctx.assumptions += ["the oracle reads the implementation's own NodeStart/RouteDecision/NodeEnd events (C12 checks their well-formedness)"]
