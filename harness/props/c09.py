"""C09 — caching is transparent, even with eviction, corruption or a torn write.

(A) InMemoryCache against the LRU model (every get result and the final OrderedDict), and against the abstract map.
(B) DiskCache fault enumeration on a real directory: complete sets, sets torn between the two writes, and every corruption class
    (bit flip, truncation, payload type change, signature altered / retyped / missing, payload missing) applied to stored entries;
    every get must return Miss or the value of a complete set of that key, raise nothing, and hand to pickle.loads only bytes
    written by a complete set (spy on hypergraph.cache's pickle).  Every get is also compared with the disk model.
(C) Whole programs with cacheable nodes and gates: sequences of runs sharing one backend (unbounded, LRU of size 1-3, disk with
    corruption between runs) must equal the uncached runs; with an unbounded cache a completed call is never invoked again.
"""
from __future__ import annotations

import copy
import os
import pickle
import shutil
import types

from harness import gen, pdl, engine
from harness.common import CoqBatch, Names, BUILD, c_list, c_pair, c_pos, c_nat, c_opt, c_Z, canon

IMPORTS = ["Base", "Cache", "CheckLib", "DiskStore"]


# ----------------------------------------------------------------------------- (A) LRU


def lru_part(ctx, batch, N):
    from hypergraph.cache import InMemoryCache
    rng = ctx.rng
    n, nontriv = 0, 0
    for case in range(ctx.n(120, 3000)):
        max_size = rng.choice([None, 0, 1, 2, 3])
        keys = ["k%d" % i for i in range(rng.randint(1, 4))]
        ops = []
        c = InMemoryCache(max_size=max_size)
        results = []
        last = {}
        for _ in range(rng.randint(1, 12)):
            k = rng.choice(keys)
            if rng.random() < 0.55:
                v = rng.randint(0, 9)
                c.set(k, v)
                last[k] = v
                ops.append(("set", k, v))
            else:
                hit, v = c.get(k)
                results.append((hit, v))
                ops.append(("get", k, None))
                if hit and last.get(k) != v:
                    ctx.violation("oracle", f"InMemoryCache.get({k}) returned {v}, the latest set stored {last.get(k)}", case={"ops": ops, "max_size": max_size})
        final = list(c._data.items())
        if max_size is not None and len(final) > max_size:
            ctx.violation("oracle", f"InMemoryCache holds {len(final)} entries with max_size={max_size}", case={"ops": ops, "max_size": max_size})
        cops = c_list([f"(LSet {c_pos(N(k))} {c_Z(v)})" if o == "set" else f"(LGet {c_pos(N(k))})" for (o, k, v) in ops])
        ms = c_opt(max_size, c_nat)
        batch.add(10000 + case, 101, "list_eqb (pair_eqb Pos.eqb Z.eqb)",
                  f"fold_left (lru_step Pos.eqb {ms}) ({cops} : list (@lop positive Z)) []", c_list([c_pair(c_pos(N(k)), c_Z(v)) for k, v in final]))
        n += 1
        nontriv += int(max_size is not None and len(ops) > max(1, (max_size or 0)))
    return n, nontriv


# ----------------------------------------------------------------------------- (B) disk


class LoadsSpy:
    def __init__(self):
        self.loaded = []

    def install(self):
        import hypergraph.cache as hc
        self.orig = hc.pickle
        spy = self
        proxy = types.SimpleNamespace(**{k: getattr(pickle, k) for k in dir(pickle) if not k.startswith("__")})

        def loads(b, *a, **kw):
            spy.loaded.append(bytes(b))
            return pickle.loads(b, *a, **kw)
        proxy.loads = loads
        hc.pickle = proxy

    def remove(self):
        import hypergraph.cache as hc
        hc.pickle = self.orig


class CrashAfterFirstWrite(Exception):
    pass


class TornProxy:
    """Delegates to the real diskcache.Cache; when armed, the SECOND set of a DiskCache.set call never happens."""
    def __init__(self, inner):
        self.inner = inner
        self.armed = False
        self.count = 0

    def set(self, k, v, *a, **kw):
        if self.armed:
            self.count += 1
            if self.count >= 2:
                raise CrashAfterFirstWrite()
        return self.inner.set(k, v, *a, **kw)

    def __getattr__(self, name):
        return getattr(self.inner, name)


TRIPPED = []


def _trip(tag):
    TRIPPED.append(tag)
    return tag


class Tripwire:
    """Unpickling an instance CALLS _trip: evidence that bytes nobody authenticated were deserialised."""
    def __init__(self, tag):
        self.tag = tag

    def __reduce__(self):
        return (_trip, (self.tag,))


def store_part(ctx, batch, N):
    """One complete set, then ONE alteration of the store's records, then one get - for every alteration class incl. records
    replaced by pickled objects and by texts that are no signature - against coq/theories/DiskStore.v (store_get with the
    raw-only Disk): hit / miss and the value, no exception, nothing unpickled that was not authenticated."""
    import logging
    from hypergraph.cache import DiskCache
    logging.disable(logging.CRITICAL)
    rng = ctx.rng
    root = BUILD / "tmp" / "c09s"
    shutil.rmtree(root, ignore_errors=True)
    root.mkdir(parents=True)
    kinds = ["none", "flip", "trunc", "ptext", "ppickle", "sigforged", "sigint", "sigpickle", "sigtext", "sigrawbit", "dropsig", "droppayload", "torn_over_good"]
    n = 0
    try:
        for rep in range(ctx.n(2, 12)):
            for kind in kinds:
                d = root / f"s{rep}_{kind}"
                dc = DiskCache(str(d))
                k = "k0"
                v = rng.randint(0, 99)
                dc.set(k, v)
                kp = c_pos(N(k))
                good = f"(VInt {c_Z(v)}, 0%nat)"
                payload = f"(Some (RRaw cbytes ctag {good}))"
                sig = f"(Some (RText cbytes ctag (cmac {kp} {good})))"
                raw = dc._cache.get(k)
                if kind == "flip":
                    dc._cache.set(k, bytes([raw[0] ^ 1]) + raw[1:])
                    payload = f"(Some (RRaw cbytes ctag (VInt {c_Z(v)}, 1%nat)))"
                elif kind == "trunc":
                    dc._cache.set(k, raw[:-1])
                    payload = f"(Some (RRaw cbytes ctag (VInt {c_Z(v)}, 2%nat)))"
                elif kind == "ptext":
                    dc._cache.set(k, "not-bytes")
                    payload = "(Some (RTextOther cbytes ctag))"
                elif kind == "ppickle":
                    dc._cache.set(k, Tripwire(f"store-payload:{kind}"))
                    payload = "(Some (RPickle cbytes ctag (VNone, 7%nat)))"
                elif kind == "sigforged":
                    dc._cache.set(k + ":hmac", "0" * 64)
                    sig = f"(Some (RText cbytes ctag (1%positive, VNone, 5%nat)))"
                elif kind == "sigint":
                    dc._cache.set(k + ":hmac", 12345)
                    sig = "(Some (RTextOther cbytes ctag))"
                elif kind == "sigpickle":
                    dc._cache.set(k + ":hmac", Tripwire(f"store-sig:{kind}"))
                    sig = "(Some (RPickle cbytes ctag (VNone, 8%nat)))"
                elif kind == "sigtext":
                    dc._cache.set(k + ":hmac", "\u00e9" * 64)
                    sig = "(Some (RTextOther cbytes ctag))"
                elif kind == "sigrawbit":
                    # ONE bit flipped where the bytes live (cache.db, not through the diskcache API): the high bit of a hex character
                    # makes the TEXT cell invalid UTF-8, so the store cannot even read the record - an unreadable record is absent
                    import sqlite3
                    con = sqlite3.connect(str(d / "cache.db"))
                    rowid, sv = con.execute("SELECT rowid, CAST(value AS BLOB) FROM Cache WHERE key = ?", (k + ":hmac",)).fetchone()
                    pos = rng.randrange(len(sv))
                    con.execute("UPDATE Cache SET value = CAST(? AS TEXT) WHERE rowid = ?", (sv[:pos] + bytes([sv[pos] ^ 0x80]) + sv[pos + 1:], rowid))
                    con.commit()
                    con.close()
                    sig = "None"
                elif kind == "dropsig":
                    dc._cache.delete(k + ":hmac")
                    sig = "None"
                elif kind == "droppayload":
                    dc._cache.delete(k)
                    payload = "None"
                elif kind == "torn_over_good":
                    w = rng.randint(100, 199)
                    dc._cache.set(k, pickle.dumps(w))          # the first of the two writes of set(k, w)
                    payload = f"(Some (RRaw cbytes ctag (VInt {c_Z(w)}, 0%nat)))"
                del TRIPPED[:]
                case = {"family": "store", "alteration": kind, "value": v}
                try:
                    hit, got = dc.get(k)
                except Exception as e:  # noqa: BLE001
                    ctx.violation("oracle", f"DiskCache.get raised {type(e).__name__}: {e} after the alteration {kind!r}", case=case)
                    continue
                finally:
                    try:
                        dc._cache.close()
                    except Exception:  # noqa: BLE001
                        pass
                n += 1
                if TRIPPED:
                    ctx.violation("oracle", f"after the alteration {kind!r}, DiskCache.get unpickled a record nobody authenticated ({TRIPPED[:2]})", case=case)
                    del TRIPPED[:]
                if hit and got != v:
                    ctx.violation("oracle", f"after the alteration {kind!r}, DiskCache.get returned {got!r}; the only complete set stored {v!r}", case=case)
                real = f"(SHit (VInt {c_Z(got)}))" if hit else "SMiss"
                batch.add(40000 + n, 111, "sres_eqb", f"fst (store_get cbytes ctag cteqb cdeser cmac true {kp} {payload} {sig})", real)
    finally:
        logging.disable(logging.NOTSET)
        shutil.rmtree(root, ignore_errors=True)
    return n


def disk_part(ctx, batch, N):
    import logging
    from hypergraph.cache import DiskCache
    logging.disable(logging.CRITICAL)
    rng = ctx.rng
    root = BUILD / "tmp" / "c09"
    shutil.rmtree(root, ignore_errors=True)
    root.mkdir(parents=True)
    spy = LoadsSpy()
    spy.install()
    n_ops, nontriv = 0, set()
    try:
        for case in range(ctx.n(70, 1500)):
            d = root / f"d{case}"
            dc = DiskCache(str(d))
            proxy = TornProxy(dc._cache)
            dc._cache = proxy
            keys = ["k%d" % i for i in range(rng.randint(1, 3))]
            complete = {k: [] for k in keys}      # values of complete sets, per key
            good_bytes = set()
            model_ops, gets = [], []
            trace = []
            spy.loaded.clear()
            del TRIPPED[:]
            auth, other = {}, {}      # real payload bytes -> model bytes: pickle.dumps(v) is (v, 0); any other byte string gets its own id

            def model_bytes(nb):
                if nb in auth:
                    return f"(VInt {c_Z(auth[nb])}, 0%nat)"
                return f"(VInt {c_Z(0)}, {other.setdefault(nb, len(other) + 1)}%nat)"
            script = []
            if rng.random() < 0.5:
                # a verified hit FIRST, then the payload altered with the signature intact, then the read again
                k0 = rng.choice(keys)
                script = [("set", k0), ("get", k0), (rng.choice(["flip", "trunc"]), k0), ("get", k0)]
            for _ in range(rng.randint(2, 10)):
                if script:
                    kind, k = script.pop(0)
                else:
                    k = rng.choice(keys)
                    kind = rng.choice(["set", "set", "get", "get", "torn", "flip", "trunc", "ptype", "sig", "sigtype", "dropsig", "droppayload",
                                       "ppickle", "sigpickle", "sigtext"])
                trace.append((kind, k))
                try:
                    if kind == "set":
                        v = rng.randint(0, 99)
                        dc.set(k, v)
                        complete[k].append(v)
                        good_bytes.add(pickle.dumps(v))
                        auth[pickle.dumps(v)] = v
                        model_ops.append(f"(DSet _ _ {c_pos(N(k))} (VInt {c_Z(v)}))")
                    elif kind == "torn":
                        v = rng.randint(100, 199)
                        auth[pickle.dumps(v)] = v
                        proxy.armed, proxy.count = True, 0
                        try:
                            dc.set(k, v)
                        except CrashAfterFirstWrite:
                            pass
                        finally:
                            proxy.armed = False
                        model_ops.append(f"(DSetCrashed _ _ {c_pos(N(k))} (VInt {c_Z(v)}))")
                    elif kind == "get":
                        del TRIPPED[:]
                        hit, v = dc.get(k)
                        if TRIPPED:
                            ctx.violation("oracle", f"DiskCache.get({k}): a record replaced by a pickled object was UNPICKLED ({TRIPPED[:3]}): bytes nobody "
                                          "authenticated were deserialised (their __reduce__ ran)", case={"trace": list(trace)})
                            del TRIPPED[:]
                        gets.append((len(model_ops), k, hit, v))
                        model_ops.append(f"(DGet _ _ {c_pos(N(k))})")
                        if hit and v not in complete[k]:
                            ctx.violation("oracle", f"DiskCache.get({k}) returned {v!r}, which no complete set of that key stored ({complete[k]})", case={"trace": trace})
                        nontriv.add((case, len(trace)))
                    else:
                        raw = proxy.inner.get(k, default=None)
                        sig = proxy.inner.get(k + ":hmac", default=None)
                        if kind in ("flip", "trunc") and isinstance(raw, bytes) and raw:
                            nb = (bytes([raw[0] ^ 1]) + raw[1:]) if kind == "flip" else raw[:-1]
                            proxy.inner.set(k, nb)
                            # (flipping the same bit twice restores the authentic bytes: the model is told which bytes are there now)
                            model_ops.append(f"(DAlterPayload _ _ {c_pos(N(k))} {model_bytes(nb)})")
                        elif kind == "ptype" and raw is not None:
                            proxy.inner.set(k, "not-bytes")
                            model_ops.append(f"(DPayloadType _ _ {c_pos(N(k))})")
                        elif kind == "ppickle" and raw is not None:
                            # the payload record replaced by a PICKLED object (the store pickles what is not bytes / text / number)
                            proxy.inner.set(k, Tripwire(f"payload:{k}"))
                            model_ops.append(f"(DPayloadType _ _ {c_pos(N(k))})")
                        elif kind == "sigpickle" and sig is not None:
                            proxy.inner.set(k + ":hmac", Tripwire(f"sig:{k}"))
                            model_ops.append(f"(DSigType _ _ {c_pos(N(k))})")
                        elif kind == "sigtext" and sig is not None:
                            proxy.inner.set(k + ":hmac", "\u00e9" * 64)      # text, but not ASCII
                            model_ops.append(f"(DAlterSig _ _ {c_pos(N(k))} (1%positive, VNone, {len(trace)}%nat))")
                        elif kind == "sig" and sig is not None:
                            proxy.inner.set(k + ":hmac", "0" * 64)
                            model_ops.append(f"(DAlterSig _ _ {c_pos(N(k))} (1%positive, VNone, {len(trace)}%nat))")
                        elif kind == "sigtype" and sig is not None:
                            proxy.inner.set(k + ":hmac", 12345)
                            model_ops.append(f"(DSigType _ _ {c_pos(N(k))})")
                        elif kind == "dropsig":
                            proxy.inner.delete(k + ":hmac")
                            model_ops.append(f"(DDropSig _ _ {c_pos(N(k))})")
                        elif kind == "droppayload":
                            proxy.inner.delete(k)
                            model_ops.append(f"(DDropPayload _ _ {c_pos(N(k))})")
                except Exception as e:  # noqa: BLE001
                    ctx.violation("oracle", f"DiskCache raised {type(e).__name__}: {e} during {kind}({k})", case={"trace": trace})
                n_ops += 1
            for b in spy.loaded:
                if b not in good_bytes:
                    ctx.violation("oracle", "pickle.loads was applied to bytes that no complete set wrote (unauthenticated deserialisation)", case={"trace": trace})
                    break
            # MODEL: every get result
            ops_t = c_list(model_ops)
            exp = c_list([("(Hit (VInt %s))" % c_Z(v)) if hit else "Miss" for (_, _, hit, v) in gets])
            batch.add(20000 + case, 110, "list_eqb dres_eqb", f"disk_gets ({ops_t} : list (dop cbytes ctag))", exp)
            try:
                proxy.inner.close()
            except Exception:  # noqa: BLE001
                pass
    finally:
        spy.remove()
        logging.disable(logging.NOTSET)
        shutil.rmtree(root, ignore_errors=True)
    return n_ops, len(nontriv)


# ----------------------------------------------------------------------------- (C) programs


def mark_cacheable(rng, g):
    g = copy.deepcopy(g)
    some = False
    for n in g["nodes"]:
        # gates are cached more often than not: a restored routing decision has to act exactly like a computed one
        if (n["kind"] == "func" and rng.random() < 0.6) or (n["kind"] in ("ifelse", "route") and rng.random() < 0.85):
            n["cache"] = True
            some = True
    return g, some


def same_function_twice(rng):
    """Two cacheable nodes wrapping one function (one definition hash): different output names / mirrored inputs."""
    return None


def run_with_cache(g, inputs, runner, cache):
    import asyncio, warnings
    from hypergraph import SyncRunner, AsyncRunner
    rr = pdl.RealRun()
    out = {}
    with warnings.catch_warnings():
        warnings.simplefilter("ignore")
        try:
            if runner == "sync":
                G = pdl.build_graph(g, rr.env(), False)
                res = SyncRunner(cache=cache).run(G, dict(inputs), error_handling="continue", max_iterations=40)
            else:
                ts = pdl.Turnstile(lambda name: 0)

                async def go():
                    G = pdl.build_graph(g, rr.env(ts), True)
                    ts.task = asyncio.ensure_future(ts.controller())
                    try:
                        return await AsyncRunner(cache=cache).run(G, dict(inputs), error_handling="continue", max_iterations=40)
                    finally:
                        ts.stop = True
                        await ts.task
                res = asyncio.run(go())
            out = {"status": res.status.value, "values": res.values, "error": None if res.error is None else pdl.err_id(res.error)}
        except Exception as e:  # noqa: BLE001
            out = {"status": "raised", "values": {}, "error": pdl.err_id(e), "error_repr": f"{type(e).__name__}: {e}"[:200]}
    out["calls"] = [c[0] for c in rr.log]
    return out


def program_part(ctx):
    import logging
    from hypergraph.cache import InMemoryCache, DiskCache
    logging.disable(logging.CRITICAL)
    rng = ctx.rng
    root = BUILD / "tmp" / "c09p"
    shutil.rmtree(root, ignore_errors=True)
    root.mkdir(parents=True)
    n_runs, nontriv = 0, set()
    progs = 0
    try:
        while progs < ctx.n(120, 1500):
            fam = rng.choice(["dag", "gated", "gated", "multigate", "loop", "emit"])
            if fam == "multigate":
                # a multi-target route gate whose decisions are non-empty lists (restored from the cache on later runs)
                g0 = gen.add_gates(rng, gen.gen_dag(rng, max_nodes=6, edge_defaults=0.1), n_gates=rng.randint(1, 2))
                for n in g0["nodes"]:
                    if n["kind"] == "route":
                        tg = [t for t in n["targets"]]
                        n["multi"], n["fallback"] = True, None
                        n["fn"] = ["gtable", [[k, rng.sample(tg, rng.randint(1, len(tg)))] for k in range(4)], rng.sample(tg, 1)]
                fam = "gated"
            else:
                g0, _ = gen.gen_program(rng, fam)
            g, some = mark_cacheable(rng, g0)
            if not some:
                continue
            try:
                base_inputs = gen.make_inputs(rng, g)
            except Exception:  # noqa: BLE001
                continue
            progs += 1
            backend = rng.choice(["mem", "lru", "disk"])
            if backend == "mem":
                cache = InMemoryCache()
            elif backend == "lru":
                cache = InMemoryCache(max_size=rng.randint(1, 3))
            else:
                cache = DiskCache(str(root / f"p{progs}"))
            seen_inputs = []
            for r in range(rng.randint(2, 4)):
                inputs = dict(base_inputs)
                if r and rng.random() < 0.5:
                    for k in list(inputs):
                        if rng.random() < 0.4:
                            inputs[k] = rng.randint(0, 3)
                runner = rng.choice(["sync", "async"])
                if backend == "disk" and r and rng.random() < 0.5:
                    corrupt_some(rng, cache)
                got = run_with_cache(g, inputs, runner, cache)
                ref = run_with_cache(g, inputs, runner, None)
                n_runs += 2
                case = {"graph": g, "inputs": inputs, "runner": runner, "backend": backend, "run_index": r}
                for key in ("status", "values", "error"):
                    if got[key] != ref[key]:
                        ctx.violation("oracle", f"cached run #{r} ({backend}) differs from the uncached run in {key}: {str(got[key])[:160]} vs {str(ref[key])[:160]}", case=case)
                        break
                # routing identical: the cached run invokes a sub-multiset of the uncached run's nodes
                for nm in set(got["calls"]):
                    if got["calls"].count(nm) > ref["calls"].count(nm):
                        ctx.violation("oracle", f"cached run invoked {nm} {got['calls'].count(nm)} times, the uncached run {ref['calls'].count(nm)} times", case=case)
                if backend == "mem" and (inputs, runner) in seen_inputs and got["status"] == "completed":
                    cached_nodes = {n["name"] for n in g["nodes"] if n.get("cache")}
                    again = [nm for nm in got["calls"] if nm in cached_nodes]
                    if again and fam in ("dag", "gated", "emit"):
                        ctx.violation("oracle", f"cacheable node(s) {sorted(set(again))} were invoked again for arguments already cached (unbounded cache)", case=case)
                    nontriv.add((progs, r))
                seen_inputs.append((inputs, runner))     # (async node functions are other definitions than sync ones)
            if backend == "disk":
                try:
                    cache._cache.close()
                except Exception:  # noqa: BLE001
                    pass
    finally:
        logging.disable(logging.NOTSET)
        shutil.rmtree(root, ignore_errors=True)
    return n_runs, len(nontriv)


def corrupt_some(rng, cache):
    inner = cache._cache
    keys = [k for k in inner.iterkeys() if isinstance(k, str)]
    for k in keys:
        if rng.random() < 0.4:
            kind = rng.choice(["flip", "trunc", "type", "drop"])
            raw = inner.get(k)
            if kind == "flip" and isinstance(raw, bytes) and raw:
                inner.set(k, bytes([raw[0] ^ 1]) + raw[1:])
            elif kind == "trunc" and isinstance(raw, (bytes, str)) and len(raw) > 1:
                inner.set(k, raw[:-1])
            elif kind == "type":
                inner.set(k, 7)
            else:
                inner.delete(k)


def same_definition_part(ctx):
    """Two cacheable nodes of one definition with different output names / mirrored input renames never share entries."""
    from hypergraph import Graph, SyncRunner, InMemoryCache
    from hypergraph.nodes import FunctionNode
    rng = ctx.rng
    n = 0
    for _ in range(ctx.n(30, 400)):
        calls = []

        def f(a, b):
            calls.append((a, b))
            return ("f", a, b)
        out1, out2 = rng.sample(["u", "v", "w"], 2)
        n1 = FunctionNode(f, name="n1", output_name=out1, cache=True)
        n2 = FunctionNode(f, name="n2", output_name=out2, cache=True)
        if rng.random() < 0.5:
            n2 = n2.with_inputs(a="b", b="a")
            exp2 = lambda a, b: ("f", b, a)  # noqa: E731
        else:
            exp2 = lambda a, b: ("f", a, b)  # noqa: E731
        a, b = rng.randint(0, 3), rng.randint(0, 3)
        cache = InMemoryCache()
        r = SyncRunner(cache=cache)
        order = [n1, n2] if rng.random() < 0.5 else [n2, n1]
        res = r.run(Graph(order), {"a": a, "b": b})
        n += 1
        want = {out1: ("f", a, b), out2: exp2(a, b)}
        if res.values != want:
            ctx.violation("oracle", f"two cached nodes of one function: got {res.values}, expected {want} (an entry was served to a node with other output names / arguments)",
                          case={"outputs": [out1, out2], "inputs": {"a": a, "b": b}})
    return n


def same_gate_function_part(ctx):
    """Two cacheable gates built from ONE routing function but routing elsewhere (other targets, other fallback, multi-target or
    not) never restore each other's decisions: the cached run equals the uncached one."""
    from hypergraph import Graph, SyncRunner, InMemoryCache, END
    from hypergraph.nodes import FunctionNode, IfElseNode, RouteNode
    rng = ctx.rng
    n = 0
    for _ in range(ctx.n(30, 400)):
        names = ["t0", "t1", "t2", "t3"]

        def mk(nm):
            def f(x):
                return (nm, x)
            f.__name__ = "fn_" + nm
            return FunctionNode(f, name=nm, output_name="o_" + nm)
        leaves = [mk(nm) for nm in names]
        kind = rng.choice(["ifelse", "route", "route_fallback"])
        if kind == "ifelse":
            def pred(x):
                return x > 1
            a, b = rng.sample(names, 2), rng.sample(names, 2)
            if a == b or rng.random() < 0.4:
                b = list(reversed(a))       # the same two branches the other way round
            g1 = IfElseNode(pred, when_true=a[0], when_false=a[1], name="g1", cache=True)
            g2 = IfElseNode(pred, when_true=b[0], when_false=b[1], name="g2", cache=True)
            desc = {"kind": kind, "g1": a, "g2": b}
        elif kind == "route":
            def pick(x):
                return ["t0", "t1"][x % 2] if x < 3 else END
            g1 = RouteNode(pick, targets=["t0", "t1", END], name="g1", cache=True)
            g2 = RouteNode(pick, targets=["t0", "t1", "t2", END], name="g2", cache=True, multi_target=False)
            desc = {"kind": kind}
        else:
            def choose(x):
                return "t0" if x % 2 else None
            fb1, fb2 = rng.sample(["t1", "t2", "t3"], 2)
            g1 = RouteNode(choose, targets=["t0"], fallback=fb1, name="g1", cache=True)
            g2 = RouteNode(choose, targets=["t0"], fallback=fb2, name="g2", cache=True)
            desc = {"kind": kind, "fallbacks": [fb1, fb2]}
        gates = [g1, g2] if rng.random() < 0.5 else [g2, g1]
        g = Graph(gates + leaves)
        cached = SyncRunner(cache=InMemoryCache())
        for _r in range(rng.randint(1, 3)):
            x = rng.randint(0, 4)
            got = cached.run(g, {"x": x})
            want = SyncRunner().run(g, {"x": x})
            n += 1
            if (got.status, got.values) != (want.status, want.values):
                ctx.violation("oracle", f"two cached gates of one routing function ({desc}): cached run returned {sorted(got.values)}, "
                              f"the uncached run {sorted(want.values)} (a gate restored another gate's decision)",
                              case={"x": x, **desc})
    return n


def mutating_args_part(ctx):
    """A cacheable node whose function updates an argument in place (list.append): the entry belongs to the arguments the
    function was CALLED with.  Repeating those arguments hits; arguments equal to the mutated state are other arguments."""
    from hypergraph import Graph, SyncRunner, AsyncRunner, InMemoryCache
    from hypergraph.nodes import FunctionNode
    import asyncio
    rng = ctx.rng
    n = 0
    for _ in range(ctx.n(25, 300)):
        calls = []

        def grow(items, extra):
            calls.append((tuple(items), extra))
            items.append(extra)
            return len(items)
        node_ = FunctionNode(grow, name="grow", output_name="size", cache=True)
        g = Graph([node_])
        is_async = rng.random() < 0.4
        mk = (lambda **kw: AsyncRunner(**kw)) if is_async else (lambda **kw: SyncRunner(**kw))

        def run(r, items, extra):
            res = r.run(g, {"items": list(items), "extra": extra})
            res = asyncio.run(res) if is_async else res
            return res.values
        cached = mk(cache=InMemoryCache())
        base = [rng.randint(0, 3) for _j in range(rng.randint(0, 2))]
        extra = rng.randint(0, 3)
        history = [(base, extra), (base, extra), (base + [extra], extra), (base, extra)]
        rng.shuffle(history)
        seen = set()
        for (items, ex) in history:
            before = len(calls)
            got = run(cached, items, ex)
            invoked = len(calls) - before
            want = run(mk(), items, ex)
            n += 1
            key = (tuple(items), ex)
            if got != want:
                ctx.violation("oracle", f"cached run on items={items} extra={ex} returned {got}, the uncached run {want} (an entry filed under "
                              f"the arguments as the function LEFT them was served)", case={"history": history, "async": is_async})
                break
            if key in seen and invoked:
                ctx.violation("oracle", f"the function was invoked again for arguments items={items} extra={ex} already cached (unbounded cache): "
                              f"the entry was filed under other arguments", case={"history": history, "async": is_async})
                break
            seen.add(key)
    return n


def equal_but_distinct_args_part(ctx):
    """Runs sharing one cache whose arguments compare EQUAL in Python but are different values (1 / 1.0 / True, 0.0 / -0.0,
    (1, 2) / (1.0, 2.0), Decimal / Fraction equal to ints): transparency - every cached run returns what the function computes
    for ITS arguments (the function tells them apart: repr, copysign, type)."""
    import math
    from decimal import Decimal
    from fractions import Fraction
    from hypergraph import Graph, SyncRunner, InMemoryCache
    from hypergraph.nodes import FunctionNode
    rng = ctx.rng
    groups = [[1, 1.0, True, Decimal(1), Fraction(1, 1)], [0, 0.0, -0.0, False], [(1, 2), (1.0, 2.0), (True, 2)], [2, 2.0], ["1", 1]]

    def show(q, unit="kg"):
        return f"{q!r} {unit} {math.copysign(1, q[0] if isinstance(q, tuple) else float(q)) if not isinstance(q, str) else 0}"
    n = 0
    for _ in range(ctx.n(6, 40)):
        runner = SyncRunner(cache=InMemoryCache())
        g = Graph([FunctionNode(show, name="show", output_name="label", cache=True)])
        grp = list(rng.choice(groups))
        rng.shuffle(grp)
        for q in grp + grp[:2]:
            got = runner.run(g, {"q": q}).values.get("label")
            n += 1
            if got != show(q):
                ctx.violation("oracle", f"cached run with q={q!r} ({type(q).__name__}) returned {got!r}; the function computes {show(q)!r} "
                              f"(an entry written for an argument that only compares equal was served)", case={"family": "equal_but_distinct_args", "order": [repr(x) for x in grp]})
                break
    return n


def factory_closures_part(ctx):
    """Cacheable nodes made by ONE factory (same source text) that capture different values are different definitions: an entry
    written by one is never served to another; and a cached value handed to a consumer that mutates it is still the computed
    value on the next hit."""
    from hypergraph import Graph, SyncRunner, InMemoryCache
    from hypergraph.nodes import FunctionNode
    rng = ctx.rng
    n = 0
    for _ in range(ctx.n(25, 300)):
        def make(k, scale):
            def f(x, m=scale):
                return x * m + k
            return FunctionNode(f, name="f", output_name="y", cache=True)
        runner = SyncRunner(cache=InMemoryCache())
        ks = [(rng.randint(0, 3), rng.randint(1, 2)) for _j in range(rng.randint(2, 4))]
        x = rng.randint(0, 3)
        for (k, scale) in ks:
            got = runner.run(Graph([make(k, scale)]), {"x": x}).values
            n += 1
            if got != {"y": x * scale + k}:
                ctx.violation("oracle", f"node made by make(k={k}, scale={scale}) on x={x}: cached run returned {got}, the function computes {x * scale + k} "
                              f"(an entry written by another closure of the same factory was served)", case={"ks": ks, "x": x})
                break
        # the same METHOD of different objects: the receiver is part of the definition
        class Scaler:
            def __init__(self, factor):
                self.factor = factor

            def apply(self, x):
                return self.factor * x
        runner = SyncRunner(cache=InMemoryCache())
        factors = [rng.randint(1, 4) for _j in range(rng.randint(2, 3))]
        for fct in factors:
            got = runner.run(Graph([FunctionNode(Scaler(fct).apply, name="apply", output_name="y", cache=True)]), {"x": x}).values
            n += 1
            if got != {"y": fct * x}:
                ctx.violation("oracle", f"node wrapping Scaler({fct}).apply on x={x}: cached run returned {got}, the method computes {fct * x} "
                              f"(an entry written for the same method of ANOTHER object was served)", case={"factors": factors, "x": x})
                break
        # several functions written on ONE source line (inspect.getsource returns the whole line for each of them), used as node
        # functions directly and captured by closures of one factory
        fs = [lambda v: v + 1, lambda v: v * v, lambda v: v - 7]  # noqa: E731
        wants = [x + 1, x * x, x - 7]

        def make_step(fn):
            def step(x):
                return fn(x)
            return FunctionNode(step, name="step", output_name="y", cache=True)
        # ... and functions that differ ONLY in the names they refer to (same bytecode, same constants): on one source line, and
        # defined by exec (no source: the bytecode fallback)
        gs = [lambda v: min(v, 3), lambda v: max(v, 3), lambda v: pow(v, 3)]  # noqa: E731
        gwants = [min(x, 3), max(x, 3), pow(x, 3)]
        ns_ = {}
        exec("import math\ndef e0(v):\n    return math.floor(v / 2)\ndef e1(v):\n    return math.ceil(v / 2)\ndef e2(v):\n    return math.trunc(v / 2)\n", ns_)  # noqa: S102
        import math as _m
        es, ewants = [ns_["e0"], ns_["e1"], ns_["e2"]], [_m.floor(x / 2), _m.ceil(x / 2), _m.trunc(x / 2)]
        for fs_, wants_, what in ((fs, wants, "three lambdas sharing a source line"), (gs, gwants, "three same-line lambdas that differ only in the global they call"),
                                  (es, ewants, "three exec-defined functions that differ only in the attribute they call")):
            for label, mk in (("function used as the node function", lambda f: FunctionNode(f, name="lam", output_name="y", cache=True).with_inputs(v="x")),
                              ("closure capturing the function", make_step)):
                runner = SyncRunner(cache=InMemoryCache())
                order = list(range(3))
                rng.shuffle(order)
                for j in order:
                    got = runner.run(Graph([mk(fs_[j])]), {"x": x}).values
                    n += 1
                    if got != {"y": wants_[j]}:
                        ctx.violation("oracle", f"{label}, one of {what}, x={x}: cached run returned {got}, the function computes "
                                      f"{wants_[j]} (an entry of another of these functions was served)", case={"x": x, "which": j, "shape": label, "set": what})
                        break
        # closures capturing PLAIN OBJECTS (default repr = an address) that are created and dropped one after the other: a later
        # object may sit at the address of an earlier one, which says nothing about what it is
        class Model:
            def __init__(self, w):
                self.w = w

        def make_m(model):
            def score(x):
                return model.w * x + 1
            return FunctionNode(score, name="score", output_name="y", cache=True)
        runner = SyncRunner(cache=InMemoryCache())
        for w in [rng.randint(1, 5) for _j in range(rng.randint(3, 6))]:
            got = runner.run(Graph([make_m(Model(w))]), {"x": x}).values
            n += 1
            if got != {"y": w * x + 1}:
                ctx.violation("oracle", f"closure capturing Model(w={w}) on x={x}: cached run returned {got}, the function computes {w * x + 1} "
                              f"(an entry written for a closure over ANOTHER object was served)", case={"x": x, "w": w})
                break
        # a cached mutable output handed to a mutating consumer (a plain list, or a list held by a tuple / dict)
        wrap_kind = rng.choice(["list", "tuple", "dict", "nested_tuple"])

        def mk_list(nn):
            base_ = list(range(nn))
            return {"list": base_, "tuple": (base_, nn), "dict": {"rows": base_}, "nested_tuple": ((base_,), "x")}[wrap_kind]

        def consume(lst):
            inner_ = {"list": lambda v: v, "tuple": lambda v: v[0], "dict": lambda v: v["rows"], "nested_tuple": lambda v: v[0][0]}[wrap_kind](lst)
            inner_.append(99)
            return sum(inner_)
        G = Graph([FunctionNode(mk_list, name="mk_list", output_name="lst", cache=True), FunctionNode(consume, name="consume", output_name="s")])
        r2 = SyncRunner(cache=InMemoryCache())
        nn = rng.randint(1, 4)
        want = SyncRunner().run(G, {"nn": nn}).values["s"]
        for j in range(rng.randint(2, 3)):
            got = r2.run(G, {"nn": nn}).values["s"]
            n += 1
            if got != want:
                ctx.violation("oracle", f"run #{j + 1} with a cache: consume(lst) returned {got}, the uncached run {want} (the cached list - held in a "
                              f"{wrap_kind} - is the object an earlier consumer mutated)", case={"nn": nn, "run": j + 1, "container": wrap_kind})
                break
    return n


def container_part(ctx):
    """An entry is never served for different arguments: arguments that differ only in container type or ordering
    (dict vs list of its items, set vs sorted list, dicts in another insertion order) are different arguments."""
    from hypergraph import Graph, SyncRunner, InMemoryCache
    from hypergraph.nodes import FunctionNode
    rng = ctx.rng
    n = 0
    for _ in range(ctx.n(25, 300)):
        def render(payload, tags):
            return (type(payload).__name__, repr(payload), type(tags).__name__, repr(tags))
        node_ = FunctionNode(render, name="render", output_name="rendered", cache=True)
        g = Graph([node_])
        items = [(k, rng.randint(0, 3)) for k in rng.sample(["a", "b", "c", "d"], rng.randint(1, 3))]
        tags = sorted(rng.sample(["x", "y", "z"], rng.randint(1, 3)))
        variants = [(list(items), list(tags)), (dict(items), list(tags)), (list(items), set(tags)), (dict(reversed(items)), tuple(tags)),
                    (tuple(items), list(tags))]
        rng.shuffle(variants)
        r = SyncRunner(cache=InMemoryCache())
        for (payload, tg) in variants[: rng.randint(2, 5)]:
            got = r.run(g, {"payload": payload, "tags": tg}).values
            want = SyncRunner().run(g, {"payload": payload, "tags": tg}).values
            n += 1
            if got != want:
                ctx.violation("oracle", f"a cached entry was served for different arguments: payload={payload!r} tags={tg!r}: got {got}, uncached {want}",
                              case={"payload": repr(payload), "tags": repr(tg)})
    return n


def run(ctx):
    N = Names()
    batch = CoqBatch("C09", IMPORTS, shard=300, preamble=PREAMBLE)
    n1, t1 = lru_part(ctx, batch, N)
    n2, t2 = disk_part(ctx, batch, N)
    n2 += store_part(ctx, batch, N)
    n3, t3 = program_part(ctx)
    n4 = same_definition_part(ctx) + container_part(ctx) + same_gate_function_part(ctx) + mutating_args_part(ctx) + factory_closures_part(ctx) + equal_but_distinct_args_part(ctx)
    from harness.props.c14 import cached_interrupt_part
    n4 += cached_interrupt_part(ctx)      # cache=True interrupts: every run of a pause/answer history equals the uncached run
    res = batch.run()
    if res["error"]:
        ctx.violation("harness", res["error"])
    for (ci, code, mv, real, mexp) in res["failed"]:
        ctx.violation("correspondence", f"check {code}: implementation {real} vs model {mv}", case={"case_index": ci}, expr=mexp)
    ctx.coverage.update(
        evaluations=n1 + n2 + n3 + n4, coq_checks=res["n"], distinct_nontrivial=t1 + t2 + t3,
        rule="(A) random get/set sequences on InMemoryCache(max_size in None,0..3) vs the LRU model; (B) DiskCache on a real directory: "
             "complete sets, sets torn after the first write, and each corruption class on stored entries, every get compared with the disk "
             "model, pickle.loads spied; (C) dag/gated/loop/emit programs with random cacheable nodes and gates, 2-4 runs sharing one backend "
             "(unbounded / LRU 1-3 / disk with corruption between runs) vs uncached runs; (D) two cached nodes of one function with different "
             "outputs or mirrored renames; (E) chains with a cache=True interrupt, histories answered with different responses. non-trivial = an LRU sequence exceeding capacity, a disk get after a fault, a repeated cached run",
        distribution={"lru_sequences": n1, "disk_ops": n2, "program_runs": n3, "same_definition_cases": n4},
        samples=[{"lru": "set/get sequences over k0..k3"}, {"disk": "set, torn, flip, trunc, ptype, sig, sigtype, dropsig, droppayload, get"}],
        traces_validated_against_impl=n1 + n2, disagreements_checked=res["n"])
    ctx.assumptions += ["HMAC-SHA256 and SHA-256 are idealised as injective tagging (Section hypotheses of CacheProofs.v)",
                        "diskcache / SQLite atomicity of a single write is trusted; the crash point modelled is between the two writes of DiskCache.set"]


PREAMBLE = """
Definition sres_eqb (a b : sres) : bool :=
  match a, b with SMiss, SMiss => true | SHit x, SHit y => val_eqb x y | _, _ => false end.
Definition dres_eqb (a b : dres) : bool :=
  match a, b with Miss, Miss => true | Hit x, Hit y => val_eqb x y | _, _ => false end.
Definition disk_gets (ops : list (dop cbytes ctag)) : list dres :=
  snd (fold_left (fun (st : disk cbytes ctag * list dres) o =>
         let d' := disk_step cbytes ctag cteqb cser cdeser cmac (fst st) o in
         match o with
         | DGet _ _ k => (d', snd st ++ [fst (disk_get cbytes ctag cteqb cdeser cmac (fst st) k)])
         | _ => (d', snd st)
         end) ops (disk_empty cbytes ctag, [])).
"""
