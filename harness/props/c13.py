"""C13 — observers cannot alter execution.

FAULT ENUMERATION: for every generated execution the baseline (no processor) is compared with runs in which a processor
(sync EventProcessor, or AsyncEventProcessor whose handler really suspends) raises at event index k, for EVERY k of the stream,
plus a processor failing on every event and one failing at shutdown; status, values, error and node invocations must be identical,
and a healthy processor registered beside the failing one must still receive the complete stream and exactly one shutdown.
PROOF: coq/props/C13.v — the dispatcher model delivers every event to every processor once and never lets an exception out.
"""
from __future__ import annotations

import asyncio
import copy

from harness import gen, pdl, engine
from harness.common import canon


def make_procs(kind, fail_at, fail_shutdown=False, always=False):
    from hypergraph.events.processor import EventProcessor, AsyncEventProcessor

    class Boom(Exception):
        pass

    class Healthy(EventProcessor):
        def __init__(self):
            self.stream = []
            self.shutdowns = 0

        def on_event(self, ev):
            self.stream.append((type(ev).__name__, getattr(ev, "node_name", None)))

        def shutdown(self):
            self.shutdowns += 1
            self.at_shutdown = list(self.stream)

    if kind == "sync":
        class Failing(EventProcessor):
            def __init__(self):
                self.k = 0

            def on_event(self, ev):
                k = self.k
                self.k += 1
                if always or k == fail_at:
                    # (every third failure carries no message at all, like queue.Full or a bare `raise ValueError`)
                    raise Boom(f"processor failed at event {k}") if k % 3 else Boom()

            def shutdown(self):
                if fail_shutdown:
                    raise Boom()
    else:
        class Failing(AsyncEventProcessor):
            def __init__(self):
                self.k = 0

            async def on_event_async(self, ev):
                k = self.k
                self.k += 1
                await asyncio.sleep(0)
                if always or k == fail_at:
                    raise Boom(f"async processor failed at event {k}") if k % 3 else Boom()

            async def shutdown_async(self):
                await asyncio.sleep(0)
                if fail_shutdown:
                    raise Boom("async processor failed at shutdown")

            def on_event(self, ev):   # used by the sync runner
                k = self.k
                self.k += 1
                if always or k == fail_at:
                    raise Boom(f"processor failed at event {k}")

            def shutdown(self):
                if fail_shutdown:
                    raise Boom("processor failed at shutdown")
    # a processor written as a plain @dataclass (eq without hash) is UNHASHABLE: nothing in the dispatcher may depend on hashing one
    if always or fail_at % 2 == 0:
        Failing.__eq__ = lambda self, other: self is other
        Failing.__hash__ = None
    if kind == "async":
        class HealthyAsync(AsyncEventProcessor):
            """A healthy exporter whose handler really suspends (I/O-like)."""
            def __init__(self):
                self.stream = []
                self.shutdowns = 0

            async def on_event_async(self, ev):
                for _ in range(8):          # a handler doing I/O suspends many times
                    await asyncio.sleep(0)
                self.stream.append((type(ev).__name__, getattr(ev, "node_name", None)))

            async def shutdown_async(self):
                self.shutdowns += 1
                self.at_shutdown = list(self.stream)

            def on_event(self, ev):
                self.stream.append((type(ev).__name__, getattr(ev, "node_name", None)))

            def shutdown(self):
                self.shutdowns += 1
                self.at_shutdown = list(self.stream)
        healthy = HealthyAsync()
    else:
        healthy = Healthy()
    order = [Failing(), healthy]
    return order, healthy


def execute(g, rc, procs):
    """Runs through the public API with the given processors; returns a comparable outcome."""
    import warnings, logging
    from hypergraph import SyncRunner, AsyncRunner
    logging.disable(logging.CRITICAL)
    rr = pdl.RealRun()
    kw = {"error_handling": rc["error_handling"], "max_iterations": rc.get("max_iterations", 40)}
    if procs is not None:
        kw["event_processors"] = procs
    out = {}
    with warnings.catch_warnings():
        warnings.simplefilter("ignore")
        try:
            if rc["runner"] == "sync":
                G = pdl.build_graph(g, rr.env(), False)
                res = SyncRunner().run(G, dict(rc["inputs"]), **kw)
            else:
                ts = pdl.Turnstile(lambda name: 0)

                async def go():
                    G = pdl.build_graph(g, rr.env(ts), True)
                    ts.task = asyncio.ensure_future(ts.controller())
                    try:
                        return await AsyncRunner().run(G, dict(rc["inputs"]), **kw)
                    finally:
                        ts.stop = True
                        await ts.task
                res = asyncio.run(go())
            out = {"status": res.status.value, "values": res.values, "error": None if res.error is None else pdl.err_id(res.error)}
        except Exception as e:  # noqa: BLE001
            out = {"status": "raised", "values": {}, "error": pdl.err_id(e), "error_repr": f"{type(e).__name__}: {e}"[:160]}
    logging.disable(logging.NOTSET)
    out["log"] = sorted(canon(c) for c in rr.log)
    return out


def run(ctx):
    rng = ctx.rng
    dist = {"family": {}, "fault_points": 0, "failing_runs": 0}
    n_eval, nontrivial = 0, set()
    samples = []
    progs = 0
    while progs < ctx.n(50, 400):
        fam = rng.choice(["dag", "gated", "loop", "nested", "emit"])
        try:
            if fam == "nested":
                g = gen.gen_dag(rng, max_nodes=5, edge_defaults=0.0)
                S = gen.convex_subset(rng, g)
                if S:
                    g = gen.nest(rng, g, S, "w0")
            else:
                g, _ = gen.gen_program(rng, fam)
            inputs = gen.make_inputs(rng, g)
        except Exception:  # noqa: BLE001
            continue
        if rng.random() < 0.3:
            from harness.props.c11 import leaves, with_failure
            lv = list(leaves(g))
            if lv:
                path, nn = rng.choice(lv)
                g = with_failure(g, path, nn["name"], 500)
                dist["failing_runs"] += 1
        rc = {"runner": rng.choice(["sync", "async"]), "inputs": inputs, "error_handling": rng.choice(["continue", "raise"]), "max_iterations": 30}
        base = execute(g, rc, None)
        n_eval += 1
        # the stream a healthy processor alone receives
        _, h0 = make_procs("sync", fail_at=-1)
        ref = execute(g, rc, [h0])
        n_eval += 1
        stream = list(h0.stream)
        if {k: ref[k] for k in ("status", "values", "error", "log")} != {k: base[k] for k in ("status", "values", "error", "log")}:
            ctx.violation("oracle", f"a healthy processor changed the run: {ref} vs {base}", case={"graph": g, "run": rc})
        progs += 1
        dist["family"][fam] = dist["family"].get(fam, 0) + 1
        kinds = ["sync", "async"] if rc["runner"] == "async" else ["sync"]
        points = list(range(len(stream)))
        if ctx.quick() and len(points) > 14:
            points = sorted(rng.sample(points, 12) + [0, len(stream) - 1])
        variants = [(k, p, False, False) for k in kinds for p in points] + [(k, -1, True, False) for k in kinds] + [(k, -1, False, True) for k in kinds]
        for (kind, p, fail_sd, always) in variants:
            procs, healthy = make_procs(kind, fail_at=p, fail_shutdown=fail_sd, always=always)
            out = execute(g, rc, procs)
            n_eval += 1
            dist["fault_points"] += 1
            what = (f"{kind} processor failing " + ("on every event" if always else "at shutdown" if fail_sd else f"at event #{p} ({stream[p][0]})"))
            case = {"graph": g, "run": rc, "fault": {"kind": kind, "event_index": p, "shutdown": fail_sd, "always": always}}
            for key in ("status", "values", "error", "log"):
                if out[key] != base[key]:
                    ctx.violation("oracle", f"{what} changed the run's {key}: {str(out[key])[:150]} instead of {str(base[key])[:150]}", case=case)
                    break
            # (concurrent nodes may interleave differently from run to run: the stream is compared as a multiset)
            if sorted(map(str, healthy.stream)) != sorted(map(str, stream)):
                ctx.violation("oracle", f"{what}: the healthy processor beside it received {len(healthy.stream)} of {len(stream)} events", case=case)
            if sorted(map(str, getattr(healthy, "at_shutdown", []))) != sorted(map(str, stream)):
                ctx.violation("oracle", f"{what}: the healthy processor was shut down having received {len(getattr(healthy, 'at_shutdown', []))} of {len(stream)} events", case=case)
            if healthy.shutdowns != 1:
                ctx.violation("oracle", f"{what}: the healthy processor was shut down {healthy.shutdowns} times", case=case)
            nontrivial.add((canon(g["nodes"]), kind, p, fail_sd, always))
        # a processor that never raises but CONSUMES what the events carry (empties every list / dict payload while rendering it)
        from hypergraph.events.processor import EventProcessor

        class Consuming(EventProcessor):
            def on_event(self, ev):
                for nm in list(getattr(ev, "__dataclass_fields__", {})):
                    v = getattr(ev, nm, None)
                    if isinstance(v, list):
                        del v[:]
                    elif isinstance(v, dict):
                        v.clear()
        _, h1 = make_procs("sync", fail_at=-1)
        out = execute(g, rc, [Consuming(), h1])
        n_eval += 1
        dist["consuming_runs"] = dist.get("consuming_runs", 0) + 1
        for key in ("status", "values", "error", "log"):
            if out[key] != base[key]:
                ctx.violation("oracle", f"a processor that empties the list / dict payloads of the events it receives changed the run's {key}: "
                              f"{str(out[key])[:150]} instead of {str(base[key])[:150]}", case={"graph": g, "run": rc, "fault": {"kind": "consuming"}})
                break
        if len(samples) < 2:
            samples.append({"graph": g["nodes"], "run": rc, "stream": stream[:20]})
    ctx.coverage.update(
        evaluations=n_eval, distinct_nontrivial=len(nontrivial),
        rule="for each generated program (dag / gated / loop / nested / emit; 30% failing; continue/raise; both runners): the baseline without "
             "processors, and one run per fault point = every event index of the stream (12 sampled + first + last in the quick tier when the "
             "stream is longer), fail-on-every-event, fail-at-shutdown; sync processors and truly suspending AsyncEventProcessors; a healthy "
             "processor registered after the failing one; plus one run per program beside a processor that never raises but empties every "
             "list / dict payload of the events it is handed. distinct = (program, processor kind, fault point)",
        distribution=dist, samples=samples, exhaustive=not ctx.quick())


LEVEL = "proof"
