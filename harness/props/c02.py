"""C02 — determinism: results independent of runner, completion order, concurrency limit, node order.

ORACLE: the same program is executed by SyncRunner and by AsyncRunner under adversarial completion orders
(a turnstile releases node bodies in a chosen priority order, fresh priorities at every arrival),
max_concurrency in {None,1,2,3}, and with the node list permuted; outcomes must agree as the property says.
MODEL: every execution is also compared with Engine.execute (exact call sequence for sync, multiset for async).
"""
from __future__ import annotations

import copy

from harness import gen, pdl, engine
from harness.common import canon

KNOWN = {}


def variants(rng, g, inputs, n_async):
    base = {"inputs": inputs, "error_handling": "continue", "max_iterations": 60}
    out = [dict(base, runner="sync")]
    for k in range(n_async):
        out.append(dict(base, runner="async", sched_seed=rng.randint(0, 10**6), fresh_rank=rng.random() < 0.5,
                        max_concurrency=rng.choice([None, None, 1, 2, 3])))
    return out


def inject_failures(rng, g):
    """Make one or two nodes raise (fresh exception objects, distinct ids)."""
    g = copy.deepcopy(g)
    funcs = [n for n in g["nodes"] if n["kind"] == "func"]
    if not funcs:
        return g
    for j, n in enumerate(rng.sample(funcs, min(len(funcs), rng.choice([1, 1, 2])))):
        n["fn"] = ["raise", 100 + j]
    return g


def fail_siblings(rng):
    """Several nodes ready in the same step, two or more of them failing with distinct errors."""
    k = rng.randint(3, 5)
    nodes = []
    failing = rng.sample(range(k), rng.randint(2, min(3, k)))
    for i in range(k):
        fn = ["raise", 200 + i] if i in failing else ["sym", f"s{i}"]
        nodes.append({"name": f"s{i}", "kind": "func", "inputs": [rng.choice(["x0", "x1"])], "outputs": [f"o{i}"], "emit": [], "wait_for": [],
                      "defaults": {}, "fn": fn})
    if rng.random() < 0.5:  # a first layer, so that the failing step is not the first one
        nodes.append({"name": "pre", "kind": "func", "inputs": ["z"], "outputs": ["x0"], "emit": [], "wait_for": [], "defaults": {}, "fn": ["sym", "pre"]})
    rng.shuffle(nodes)
    return {"nodes": nodes, "bound": {}, "entrypoints": None, "selected": None, "ext": [], "int_valued": []}


def straddle(rng):
    """Both branches of a default-open if/else produce the same name and are ready in the step in which a third node
    fails (the gate's input arrives a step later): branch - failing node - branch in listing order, or a permutation."""
    nodes = [
        {"name": "mkc", "kind": "func", "inputs": ["x0"], "outputs": ["c"], "emit": [], "wait_for": [], "defaults": {}, "fn": ["add", 0]},
        {"name": "gate", "kind": "ifelse", "inputs": ["c"], "outputs": [], "emit": [], "wait_for": [], "defaults": {}, "fn": ["glt", 2],
         "when_true": "bx", "when_false": "by", "default_open": True},
        {"name": "bx", "kind": "func", "inputs": ["x0"], "outputs": ["o"], "emit": [], "wait_for": [], "defaults": {}, "fn": ["sym", "bx"]},
        {"name": "boom", "kind": "func", "inputs": ["x0"], "outputs": ["bad"], "emit": [], "wait_for": [], "defaults": {}, "fn": ["raise", 300]},
        {"name": "by", "kind": "func", "inputs": ["x0"], "outputs": ["o"], "emit": [], "wait_for": [], "defaults": {}, "fn": ["sym", "by"]},
    ]
    if rng.random() < 0.5:
        rng.shuffle(nodes)
    return {"nodes": nodes, "bound": {}, "entrypoints": None, "selected": None, "ext": ["x0"], "int_valued": ["x0"]}


def mutex_siblings_straddle_failure(g, base, other, msg):
    """F-b: the sync and async FAILED results disagree on a name because, in the failing step, the asynchronous runner
    also applied the output of a successful sibling that is listed AFTER the failing node (the synchronous runner stops at
    the failing node and keeps what the name held before: an earlier sibling's value, an earlier step's value or the seed)."""
    if "partial value" not in msg or base["status"] != "failed":
        return False
    m = __import__("re").match(r".*partial value (\w+)=", msg)
    if not m:
        return False
    name = m.group(1)
    order = [n["name"] for n in g["nodes"]]
    producers = [n["name"] for n in g["nodes"] if name in pdl.node_outputs(n)]
    failing = [n["name"] for n in g["nodes"] if n.get("fn", [None])[0] == "raise"]
    cnt = lambda log, nm: sum(1 for x, _ in log if x == nm)  # noqa: E731
    for f in failing:
        if cnt(base["log"], f) == 0:
            continue
        later = [p for p in producers if order.index(p) > order.index(f) and cnt(other["log"], p) > cnt(base["log"], p)]
        if later:
            return True
    return False


KNOWN["F-b"] = mutex_siblings_straddle_failure


def unique_outputs(g):
    outs = [o for n in g["nodes"] for o in pdl.node_outputs(n)]
    return len(outs) == len(set(outs))


def compare(base, other, what):
    bad = []
    if base["status"] != other["status"]:
        bad.append(f"{what}: status {other['status']} vs sync {base['status']}")
        return bad
    if base["status"] == "completed":
        if base["values"] != other["values"]:
            bad.append(f"{what}: values differ: {other['values']} vs sync {base['values']}")
        a = sorted(canon(c) for c in base["log"])
        b = sorted(canon(c) for c in other["log"])
        if a != b:
            bad.append(f"{what}: multiset of node invocations differs from the synchronous run")
    elif base["status"] == "failed":
        if base["error"] != other["error"]:
            bad.append(f"{what}: reports error {other['error']} ({other.get('error_repr')}) vs sync {base['error']} ({base.get('error_repr')})")
        for k, v in base["values"].items():
            if k not in other["values"] or other["values"][k] != v:
                bad.append(f"{what}: partial value {k}={v!r} of the synchronous run is {other['values'].get(k, '<absent>')!r} here")
    return bad


def map_part(ctx, dist):
    """The same graph mapped over the same lists by SyncRunner.map and by AsyncRunner.map under max_concurrency None/1/2/3 and
    adversarial completion orders of the items (the first item finishing last, random orders): the list of results - status and
    values of item k in slot k - is the same in every case."""
    import random as _r
    from harness.props.c10 import item_graph, make_lists
    rng = ctx.rng
    n = 0
    for _ in range(ctx.n(30, 250)):
        g, params = item_graph(rng)
        over = rng.sample(params, rng.randint(1, len(params)))
        mode = rng.choice(["zip", "product"])
        inputs = make_lists(rng, over, mode, allow_bad=False)
        for p in params:
            if p not in over:
                inputs[p] = rng.randint(0, 4)
        inputs["k"] = rng.randint(5, 9)
        base_rc = {"runner": "sync", "inputs": inputs, "error_handling": "continue", "map": {"over": over, "mode": mode}}
        base = pdl.run_real(g, base_rc)
        n += 1
        if base["status"] != "mapped":
            continue
        want = [(r["status"], r["values"], r["error"]) for r in base["results"]]
        for mc in (None, 1, 2, 3):
            seed = rng.randint(0, 10**6)
            rr = _r.Random(seed)
            slow_first = rng.random() < 0.5
            first = [True]

            def rank(name, rr=rr, slow_first=slow_first, first=first):
                if slow_first and first[0]:
                    first[0] = False
                    return 10.0          # the item that starts first completes last
                return rr.random()
            rc = {"runner": "async", "inputs": inputs, "error_handling": "continue", "map": {"over": over, "mode": mode},
                  "max_concurrency": mc, "sched_seed": seed, "fresh_rank": True}
            o = pdl.run_real(g, rc, rank=rank)
            n += 1
            dist["map_runs"] = dist.get("map_runs", 0) + 1
            got = [(r["status"], r["values"], r["error"]) for r in o.get("results", [])] if o["status"] == "mapped" else o["status"]

            def same(w, g_):
                # a failed item: same error, and every partial value SyncRunner returns is returned identically (AsyncRunner may
                # hold more: siblings of the failing node in its step complete)
                if w[0] == "failed":
                    return g_[0] == "failed" and g_[2] == w[2] and all(k in g_[1] and g_[1][k] == v for k, v in w[1].items())
                return w == g_
            if not isinstance(got, list) or len(got) != len(want) or not all(same(w, g_) for w, g_ in zip(want, got)):
                ctx.violation("oracle", f"AsyncRunner.map(max_concurrency={mc}, item completion order seed {seed}{', first item last' if slow_first else ''}) "
                              f"returned {str(got)[:300]}; SyncRunner.map returns {str(want)[:300]}",
                              case={"graph": g, "over": over, "mode": mode, "inputs": inputs, "max_concurrency": mc, "sched_seed": seed})
    return n


def coroutine_returning_part(ctx, dist):
    """A plain `def` node that hands back a coroutine (an async def behind a sync wrapper): a run that does not fail has the same
    outcome under both runners - SyncRunner, which cannot await, may refuse the graph, but must not complete with other values."""
    import asyncio
    from hypergraph import AsyncRunner, Graph, SyncRunner
    from hypergraph.nodes import FunctionNode
    rng = ctx.rng
    n = 0
    for _ in range(ctx.n(10, 60)):
        k = rng.randint(1, 5)
        position = rng.choice(["first", "middle"])

        async def _fetch(v, k=k):
            await asyncio.sleep(0)
            return v * k

        def fetch(v):
            return _fetch(v)          # plain function, returns the coroutine

        def pre(x):
            return x + 1

        def post(w):
            return ("post", w)
        nodes = [FunctionNode(fetch, name="fetch", output_name="w").with_inputs(v="x" if position == "first" else "p"),
                 FunctionNode(post, name="post", output_name="out")]
        if position == "middle":
            nodes.append(FunctionNode(pre, name="pre", output_name="p"))
        rng.shuffle(nodes)
        G = Graph(nodes)
        x = rng.randint(0, 4)
        ra = asyncio.run(AsyncRunner().run(G, {"x": x}))
        want = (ra.status.value, dict(ra.values))
        import warnings
        with warnings.catch_warnings():
            warnings.simplefilter("ignore")
            try:
                rs = SyncRunner().run(G, {"x": x})
                got = (rs.status.value, {k_: (v_ if not asyncio.iscoroutine(v_) else "<coroutine object>") for k_, v_ in rs.values.items()})
                for v_ in rs.values.values():
                    if asyncio.iscoroutine(v_):
                        v_.close()
            except Exception as e:  # noqa: BLE001
                got = ("raised", type(e).__name__)
        n += 2
        dist["coroutine_returning"] = dist.get("coroutine_returning", 0) + 1
        if got[0] == "completed" and got != want:
            ctx.violation("oracle", f"a plain function returning a coroutine: AsyncRunner gives {want}, SyncRunner completes with {got}",
                          case={"family": "coroutine_returning", "k": k, "position": position, "x": x})
    return n


def run(ctx):
    rng = ctx.rng
    n_prog = ctx.n(220, 1500)
    n_async = ctx.n(3, 8)
    cases, groups = [], []
    dist = {"family": {}, "failing": 0, "perm": 0, "max_width": 0}
    for _ in range(n_prog):
        r0 = rng.random()
        if r0 < 0.15:
            g, fam = fail_siblings(rng), "fail_siblings"
        elif r0 < 0.19:
            g, fam = straddle(rng), "straddle"
        else:
            g, fam = gen.gen_program(rng)
        if fam not in ("fail_siblings", "straddle") and rng.random() < 0.25:
            g = inject_failures(rng, g)
            dist["failing"] += 1
        if rng.random() < 0.15:
            # a plain (non-generator) function that RETURNS a generator object: its value is the list of what it yields, under either runner
            cand = [n for n in g["nodes"] if n["kind"] == "func" and n["fn"][0] in ("sym", "const") and len(n.get("outputs", [])) == 1]
            if cand:
                rng.choice(cand)["fn"] = ["genconst", [rng.randint(0, 3), rng.randint(0, 3)]]
                dist["generator_returning"] = dist.get("generator_returning", 0) + 1
        try:
            inputs = gen.make_inputs(rng, g)
        except Exception:  # noqa: BLE001  (generator produced a graph the constructor rejects)
            continue
        dist["family"][fam] = dist["family"].get(fam, 0) + 1
        idxs = []
        for rc in variants(rng, g, inputs, n_async):
            idxs.append(len(cases))
            cases.append((g, rc))
        # node-list permutation (only claimed when output names are unique)
        if unique_outputs(g) and not any(n["kind"] == "interrupt" for n in g["nodes"]):
            g2 = copy.deepcopy(g)
            rng.shuffle(g2["nodes"])
            idxs.append(len(cases))
            cases.append((g2, {"inputs": inputs, "error_handling": "continue", "max_iterations": 60, "runner": "sync", "permuted": True}))
            dist["perm"] += 1
        groups.append(idxs)
    n_map = map_part(ctx, dist)
    n_map += coroutine_returning_part(ctx, dist)
    obs_all, res = engine.run_cases(ctx, "C02", cases)
    nontrivial = set()
    for idxs in groups:
        if idxs[0] not in obs_all:
            continue
        base = obs_all[idxs[0]]
        g = cases[idxs[0]][0]
        for j in idxs[1:]:
            if j not in obs_all:
                continue
            rc = cases[j][1]
            o = obs_all[j]
            what = "permuted node list" if rc.get("permuted") else f"async(max_concurrency={rc.get('max_concurrency')}, schedule {rc.get('sched_seed')})"
            if rc.get("permuted") and base["status"] == "failed":
                continue  # the property claims node-order independence for runs that do not fail
            for msg in compare(base, o, what):
                fid = classify(cases[j][0], base, o, msg)
                if fid:
                    ctx.known(fid)
                else:
                    ctx.violation("oracle", msg, case={"graph": cases[j][0], "run": rc, "sync_run": cases[idxs[0]][1]},
                                  observed={"sync": base, "other": o})
            if o.get("peak_inflight", 0) > dist["max_width"]:
                dist["max_width"] = o["peak_inflight"]
            if o.get("peak_inflight", 0) >= 2:
                nontrivial.add(engine.program_key(g, rc))
    ctx.coverage.update(
        evaluations=len(cases) + n_map, coq_checks=res["n"], distinct_nontrivial=len(nontrivial),
        rule="programs from the families dag / gated / loop (L1, L2) / emit+wait_for, 25% with 1-2 failing nodes; each run by "
             "SyncRunner, by AsyncRunner under 3-8 adversarial completion orders (turnstile) x max_concurrency in {None,1,2,3}, and with "
             "the node list permuted; plus item graphs mapped by SyncRunner.map and AsyncRunner.map under max_concurrency None/1/2/3 and adversarial item "
             "completion orders; non-trivial = an async execution in which >=2 node bodies were in flight together",
        distribution=dist, samples=[{"graph": cases[1][0]["nodes"], "run": cases[1][1]}],
        traces_validated_against_impl=len(obs_all), disagreements_checked=res["n"])
    ctx.assumptions += ["completion order is controlled from inside node bodies (async functions awaiting harness futures); nodes are "
                        "therefore async functions under AsyncRunner and plain functions under SyncRunner"]


def classify(g, base, other, msg):
    """Known-finding matchers (narrow; see known_findings.json)."""
    for fid, f in KNOWN.items():
        if f(g, base, other, msg):
            return fid
    return None
