"""C05 — a nested graph behaves exactly like its nodes inlined.

ORACLE: for a generated acyclic graph and a dependency-closed group of its nodes, the flat graph and the graph with the group
wrapped into a nested graph (depth 1-3, bindings on the inner graph or the outer one, inner selection, renamed wrapper inputs)
report the same required / optional inputs and return the same values for the exposed names.
MODEL: the nested run against Nested.exec_ng (inputs translated through the renames, nested run, outputs mapped back).
"""
from __future__ import annotations

import copy

from harness import gen, pdl, engine
from harness.common import canon


def wrap_levels(rng, g, depth):
    """Nest `depth` times: each level wraps a convex group of the current top-level nodes."""
    cur = g
    info = []
    for lvl in range(depth):
        S = gen.convex_subset(rng, cur, min_size=1)
        if not S:
            break
        name = f"w{lvl}"
        cur = gen.nest(rng, cur, S, name, inner_bind=0.7, select_inner=rng.random() < 0.3)
        info.append({"level": lvl, "group": S})
    return cur, info


def rename_wrapper_inputs(rng, g):
    """Renames some inputs of top-level wrappers that are plain graph inputs used by no other node."""
    ren = {}
    G = engine.real_input_spec(g)
    for n in g["nodes"]:
        if n["kind"] != "graph":
            continue
        gn = [x for x in G.nodes.values() if x.name == n["name"]][0]
        others = {p for m in g["nodes"] if m is not n for p in gen.iface(m)[0]}
        produced = {o for m in G.nodes.values() for o in m.outputs}
        cands = [p for p in gn.inputs if p not in others and p not in produced and p not in ren.values()]
        other_wrappers = [x for x in G.nodes.values() if x.name != n["name"] and hasattr(x, "graph")]
        cands = [p for p in cands if not any(p in w.inputs for w in other_wrappers)]
        batch = {}
        for p in cands:
            if rng.random() < 0.5:
                batch[p] = p + "_r"
        if len(cands) >= 2 and rng.random() < 0.3:
            a, b = cands[0], cands[1]
            n["in_hist"] = [{a: "tmp_r"}, {b: a, "tmp_r": b}]   # swap through a temporary: net effect a<->b
            ren[a], ren[b] = b, a
        elif batch:
            n["in_hist"] = [batch]
            ren.update(batch)
        n["touch"] = rng.random() < 0.5
    return ren


def inner_bind_default_part(ctx):
    """A value bound on the inner graph reaches a plain node OUTSIDE it that consumes the same name (depth 1 and 2, both runners),
    exactly as the flat graph's binding does.  (With a signature DEFAULT on the outside consumer the constructor rejects the
    nested graph on purpose - tests/test_bind_defaults.py pins that - so that shape is not compared: DESIGN 12.2, not violations.)"""
    from hypergraph import Graph, SyncRunner
    from hypergraph.nodes import FunctionNode
    # the same without signature defaults (depth 1 and 2, both runners): a value bound on the inner graph reaches a plain node OUTSIDE it
    # that consumes the same name, exactly as the flat graph's binding does
    import asyncio
    from hypergraph import AsyncRunner
    n = 0
    for depth in (1, 2):
        for runner in ("sync", "async"):
            def tok2(text, lang):
                return (text, lang)

            def lab2(tokens, lang):
                return (tokens, lang)
            T2 = FunctionNode(tok2, name="tokenize", output_name="tokens")
            L2 = FunctionNode(lab2, name="label", output_name="labelled")
            inner = Graph([T2], name="tok").bind(lang="de")
            for d in range(depth - 1):
                inner = Graph([inner.as_node()], name=f"lvl{d}")
            flat_g, nested_g = Graph([T2, L2]).bind(lang="de"), Graph([inner.as_node(), L2])
            run = (lambda G: SyncRunner().run(G, {"text": "x"})) if runner == "sync" else (lambda G: asyncio.run(AsyncRunner().run(G, {"text": "x"})))
            try:
                fv, nv = dict(run(flat_g).values), dict(run(nested_g).values)
            except Exception as e:  # noqa: BLE001
                ctx.violation("oracle", f"inner binding shared with an outside node (depth {depth}, {runner}) raised {type(e).__name__}: {str(e)[:120]}",
                              case={"family": "inner_bind_shared", "depth": depth, "runner": runner})
                continue
            n += 1
            if fv != nv:
                ctx.violation("oracle", f"a value bound on the inner graph (depth {depth}, {runner}) and consumed by a node outside it: flat {fv} vs nested {nv}",
                              case={"family": "inner_bind_shared", "depth": depth, "runner": runner})
    return n


def run(ctx):
    rng = ctx.rng
    cases, groups = [], []
    dist = {"depth": {}, "inner_bind": 0, "inner_select": 0, "renamed": 0, "rejected_nested": 0}
    tries = 0
    while len(groups) < ctx.n(260, 1800) and tries < 20000:
        tries += 1
        g = gen.gen_dag(rng, max_nodes=7, edge_defaults=0.1, emits=0.0)
        try:
            Gf = engine.real_input_spec(g)
        except Exception:  # noqa: BLE001
            continue
        spec = Gf.inputs
        if rng.random() < 0.15 and spec.required:
            # an input whose NAME is also a keyword parameter of runner.run(): legal at the top level (it travels inside the values
            # dict), so the nested graph receives it exactly as the flat one does
            old_nm = rng.choice(list(spec.required))
            new_nm = rng.choice(["values", "select", "max_iterations", "error_handling", "entrypoint", "on_missing", "event_processors"])
            if new_nm not in {p_ for n in g["nodes"] for p_ in n["inputs"] + n["outputs"]}:
                for n in g["nodes"]:
                    n["inputs"] = [new_nm if p_ == old_nm else p_ for p_ in n["inputs"]]
                    n["defaults"] = {(new_nm if k_ == old_nm else k_): v_ for k_, v_ in n.get("defaults", {}).items()}
                for key in ("ext", "int_valued"):
                    if key in g:
                        g[key] = [new_nm if p_ == old_nm else p_ for p_ in g[key]]
                Gf = engine.real_input_spec(g)
                spec = Gf.inputs
                dist["keyword_named_inputs"] = dist.get("keyword_named_inputs", 0) + 1
        bound = {x: 30 + k for k, x in enumerate(list(spec.required) + list(spec.optional)) if rng.random() < 0.3}
        g["bound"] = bound
        depth = rng.choice([1, 1, 2, 3])
        gn, info = wrap_levels(rng, g, depth)
        try:
            Gn = engine.real_input_spec(gn)
        except Exception as e:  # noqa: BLE001
            dist["rejected_nested"] += 1
            msg = f"the flat graph is accepted but the nested one is rejected by the constructor: {type(e).__name__}: {str(e)[:160]}"
            ctx.violation("oracle", msg, case={"graph": gn, "flat": g})
            continue
        ren = rename_wrapper_inputs(rng, gn) if rng.random() < 0.4 else {}
        gn["bound"] = {ren.get(k, k): v for k, v in gn.get("bound", {}).items()}
        try:
            Gn = engine.real_input_spec(gn)
            Gf = engine.real_input_spec(g)
        except Exception as e:  # noqa: BLE001
            ctx.violation("harness", f"renamed nesting rejected: {e}", case={"graph": gn})
            continue
        # further wrappers are derived from some wrapper objects (another rename) and thrown away: the wrapper in the graph is
        # not touched by that, so the nested graph still equals the flat one
        for n in gn["nodes"]:
            if n["kind"] == "graph" and rng.random() < 0.35:
                real = Gn.nodes[n["name"]]
                if len(real.inputs) >= 2 and rng.random() < 0.6:
                    a_, b_ = rng.sample(list(real.inputs), 2)
                    n["discarded_derivations"] = [{a_: b_, b_: a_}]          # two inputs swapped in the discarded copy
                    dist["discarded_derivations"] = dist.get("discarded_derivations", 0) + 1
                elif real.inputs:
                    pick = rng.choice(list(real.inputs))
                    n["discarded_derivations"] = [{pick: pick + "_zz"}]
                    dist["discarded_derivations"] = dist.get("discarded_derivations", 0) + 1
        sf, sn = Gf.inputs, Gn.inputs
        rn = lambda xs: sorted(ren.get(x, x) for x in xs)  # noqa: E731
        has_sel = has_inner_selection(gn)
        if not has_sel and (rn(sf.required) != sorted(sn.required) or rn(sf.optional) != sorted(sn.optional)):
            ctx.violation("oracle", f"input spec differs: flat required/optional = {sorted(sf.required)}/{sorted(sf.optional)} "
                          f"(renamed {rn(sf.required)}/{rn(sf.optional)}), nested = {sorted(sn.required)}/{sorted(sn.optional)}",
                          case={"graph": gn, "flat": g, "rename": ren})
        inputs = {x: rng.randint(0, 3) for x in sf.required}
        for x in sf.optional:
            if rng.random() < 0.4:
                inputs[x] = rng.randint(0, 3)
        inputs_n = {ren.get(k, k): v for k, v in inputs.items()}
        runner = rng.choice(["sync", "async"])
        rc = {"runner": runner, "error_handling": "continue", "sched_seed": rng.randint(0, 10**6)}
        i0 = len(cases)
        cases.append((g, dict(rc, inputs=inputs)))
        cases.append((gn, dict(rc, inputs=inputs_n)))
        groups.append((i0, i0 + 1, ren))
        dist["depth"][depth] = dist["depth"].get(depth, 0) + 1
        dist["renamed"] += int(bool(ren))

        def walk(gg):
            for n in gg["nodes"]:
                if n["kind"] == "graph":
                    dist["inner_bind"] += int(bool(n["graph"].get("bound")))
                    dist["inner_select"] += int(n["graph"].get("selected") is not None)
                    walk(n["graph"])
        walk(gn)
    n_rep = repeated_runs_part(ctx) + inner_bind_default_part(ctx)
    obs_all, res = engine.run_cases(ctx, "C05", cases)
    nontrivial = set()
    for (a, b, ren) in groups:
        if a not in obs_all or b not in obs_all:
            continue
        of, on = obs_all[a], obs_all[b]
        gflat, gnest = cases[a][0], cases[b][0]
        if of["status"] != on["status"]:
            ctx.violation("oracle", f"status differs: flat {of['status']} nested {on['status']} ({on.get('error_repr')})",
                          case={"graph": gnest, "flat": gflat, "run": cases[b][1]}, observed={"flat": of, "nested": on})
            continue
        exposed = exposed_names(gnest)
        exp = {k: v for k, v in of["values"].items() if k in exposed}
        if exp != on["values"]:
            ctx.violation("oracle", f"values differ: flat (restricted to exposed names) {exp} vs nested {on['values']}",
                          case={"graph": gnest, "flat": gflat, "run": cases[b][1]}, observed={"flat": of, "nested": on})
        if len(gflat["nodes"]) >= 3:
            nontrivial.add(canon({"g": gnest["nodes"], "in": cases[b][1]["inputs"]}))
    ctx.coverage.update(
        evaluations=len(cases) + n_rep, coq_checks=res["n"], distinct_nontrivial=len(nontrivial),
        rule="random DAGs (1-7 nodes; bindings, defaults incl. on edge-fed parameters) with a dependency-closed group wrapped into a nested "
             "graph, repeated to depth 1-3; bindings moved onto inner graphs; inner selections keeping what the outside consumes; wrapper inputs "
             "renamed (fresh names, swaps through temporaries, with the wrapper object used between renames); both runners; "
             "non-trivial = the flat graph has >=3 nodes",
        distribution=dist, samples=[{"flat": cases[0][0]["nodes"], "nested": cases[1][0]["nodes"]}] if cases else [],
        traces_validated_against_impl=len(obs_all), disagreements_checked=res["n"])


def repeated_runs_part(ctx):
    """The same graph objects run several times: nested == flat run after run, also when a node mutates the object it got
    from its signature default (every run of either graph starts from a fresh copy of the default)."""
    import asyncio
    import warnings
    from hypergraph import AsyncRunner, Graph, SyncRunner
    from hypergraph.nodes import FunctionNode
    rng = ctx.rng
    n = 0
    for _ in range(ctx.n(40, 400)):
        shape = rng.choice(["list", "dict", "nested"])

        def make_nodes():
            default = {"list": [], "dict": {"log": []}, "nested": ([],)}[shape]
            inner = {"list": lambda d: d, "dict": lambda d: d["log"], "nested": lambda d: d[0]}[shape]

            def make_event(seed):
                return ("ev", seed)

            def remember(event, log=default):
                inner(log).append(event)
                return list(inner(log))

            def summarize(history, title="log"):
                return (title, tuple(history))
            return (FunctionNode(make_event, name="make_event", output_name="event"),
                    FunctionNode(remember, name="remember", output_name="history"),
                    FunctionNode(summarize, name="summarize", output_name="report"))
        a, b, c = make_nodes()
        flat = Graph([a, b, c])
        a, b, c = make_nodes()
        depth = rng.choice([1, 2])
        ren = rng.random() < 0.4
        if depth == 1:
            w = Graph([b, c], name="journal").as_node()
        else:
            w = Graph([Graph([b], name="keeper").as_node(), c], name="journal").as_node()
        if ren:
            w = w.with_inputs(log="journal_log")
        nested = Graph([a, w])
        is_async = rng.random() < 0.5
        runs = rng.randint(2, 4)
        seeds = [rng.randint(0, 3) for _ in range(runs)]

        def go(G):
            out = []
            with warnings.catch_warnings():
                warnings.simplefilter("ignore")
                for sd in seeds:
                    if is_async:
                        r = asyncio.run(AsyncRunner().run(G, {"seed": sd}))
                    else:
                        r = SyncRunner().run(G, {"seed": sd})
                    out.append((r.status.value, {k: r.values.get(k) for k in ("event", "history", "report")}))
            return out
        try:
            rf, rn = go(flat), go(nested)
        except Exception as e:  # noqa: BLE001
            ctx.violation("oracle", f"repeated runs raised {type(e).__name__}: {e}", case={"shape": shape, "depth": depth, "renamed": ren})
            continue
        n += 2 * runs
        for k, (x, y) in enumerate(zip(rf, rn)):
            if x != y:
                ctx.violation("oracle", f"run #{k + 1} of the same graph objects: flat returns {x}, nested (depth {depth}{', wrapper input renamed' if ren else ''}) "
                              f"returns {y} (a node mutating its {shape} default)",
                              case={"shape": shape, "depth": depth, "renamed": ren, "seeds": seeds, "async": is_async})
                break
    return n


def has_inner_selection(g):
    return any(n["kind"] == "graph" and (n["graph"].get("selected") is not None or has_inner_selection(n["graph"])) for n in g["nodes"])


def exposed_names(g):
    """Names visible at the top level of a nested PDL graph: outputs of top-level leaves and of wrappers
    (all inner outputs, or the inner selection, recursively)."""
    out = set()
    for n in g["nodes"]:
        if n["kind"] == "graph":
            inner = n["graph"]
            e = exposed_names(inner)
            if inner.get("selected") is not None:
                e = e & set(inner["selected"])
            out |= e
        else:
            out |= set(pdl.node_outputs(n))
    return out
