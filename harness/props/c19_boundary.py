"""C19 (part) — the types a nested graph offers to strict_types validation, against coq/theories/BoundaryTypes.v.

Random trees of typed nodes (leaves annotated int / str / float / list[int] / unannotated; nested graphs to depth 3, each
possibly renaming the value at its boundary (with_inputs / with_outputs) and possibly mapping over it; exclusive branches
producing one shared name) are built as real GraphNodes and written as BoundaryTypes.tnode terms.
CORRESPONDENCE (codes >= 100): GraphNode.get_input_types(p) = BoundaryTypes.in_types, get_output_types(o) = out_types, for
every exposed input / output, order included; the constructor's verdict on Graph([producer, node], strict_types=True)
(resp. [node, consumer]) = BoundaryTypes.edge_ok.
"""
from __future__ import annotations

from harness.common import CoqBatch, Names, c_list, c_pair, c_pos, c_opt, c_bool
from harness.props import c19 as base

TY = {"int": base.INT, "str": base.STR, "float": base.FLOAT, "li": base.C("list", base.INT), None: None}


def _mkfn(name, params, ret):
    """A function `name(params...)` whose annotations are the given type terms (None = unannotated)."""
    src = f"def {name}({', '.join(params)}):\n    return 0\n"
    ns = {}
    exec(src, ns)  # noqa: S102 - generated from fixed names
    f = ns[name]
    ann = {p: base.py_of(t) for p, t in params.items() if t is not None}
    if ret is not None:
        ann["return"] = base.py_of(ret)
    f.__annotations__ = ann
    return f


class Gen:
    def __init__(self, rng, N):
        self.rng, self.N, self.k = rng, N, 0
        self.cons, self.prods = {}, {}       # per real node: leaf consumers of the value / leaf producers per output, (mapping levels, type)
        self.theme = rng.choice(["int", "int", "str"])      # most annotations agree, so that accepted edges are common

    def pick(self, options):
        return self.theme if self.rng.random() < 0.75 else self.rng.choice(options)

    def fresh(self, stem):
        self.k += 1
        return f"{stem}{self.k}"

    def cty(self, d):
        return "[ " + "; ".join(f"({c_pos(self.N(k))}, {base.coq_ty(self.N, v)})" for k, v in d.items() if v is not None) + " ]" if any(v is not None for v in d.values()) else "[]"

    def names(self, xs):
        return c_list([c_pos(self.N(x)) for x in xs])

    def leaf(self, pname):
        """A function node consuming the value under `pname` (plus a private parameter) and producing a fresh output."""
        from hypergraph.nodes import FunctionNode
        nm, out, own = self.fresh("f"), self.fresh("o"), self.fresh("a")
        pt = TY[self.pick(["int", "str", "float", "li", None])]
        rt = TY[self.pick(["int", "str", "float", None])]
        params = {pname: pt, own: base.INT}
        real = FunctionNode(_mkfn(nm, params, rt), name=nm, output_name=out)
        term = f"(TLeaf {c_pos(self.N(nm))} {self.names(real.inputs)} {self.names(real.outputs)} {self.cty(params)} {self.cty({out: rt})})"
        self.cons[id(real)] = [(0, pt)]
        self.prods[id(real)] = {out: [(0, rt)]}
        return real, term, [out]

    def branches(self, pname):
        """gate(c) -> b0 | b1, both consuming the value and producing ONE shared output name."""
        from hypergraph.nodes import FunctionNode, IfElseNode
        g, b0, b1, w, c = self.fresh("g"), self.fresh("b"), self.fresh("b"), self.fresh("w"), self.fresh("c")

        def gate_fn(**kw):
            return True
        gf = _mkfn(g, {c: base.INT}, None)
        gf.__annotations__["return"] = bool
        gate = IfElseNode(gf, when_true=b0, when_false=b1, name=g)
        out = [(gate, f"(TLeaf {c_pos(self.N(g))} {self.names(gate.inputs)} [] {self.cty({c: base.INT})} [])")]
        for b in (b0, b1):
            pt = TY[self.pick(["int", "str", "float", None])]
            rt = TY[self.pick(["int", "str", None])]
            real = FunctionNode(_mkfn(b, {pname: pt}, rt), name=b, output_name=w)
            self.cons[id(real)] = [(0, pt)]
            self.prods[id(real)] = {w: [(0, rt)]}
            out.append((real, f"(TLeaf {c_pos(self.N(b))} {self.names(real.inputs)} {self.names(real.outputs)} {self.cty({pname: pt})} {self.cty({w: rt})})"))
        order = [0, 1, 2]
        self.rng.shuffle(order)
        return [out[i] for i in order], [w]

    def graph(self, depth, pname):
        """A nested graph consuming the value under `pname` outside; inside it may go by another name."""
        from hypergraph import Graph
        rng = self.rng
        inner_name = pname if rng.random() < 0.6 else self.fresh("q")
        children, outs_inner = [], []
        for _ in range(rng.randint(1, 3)):
            r = rng.random()
            if depth > 1 and r < 0.35:
                real, term, outs = self.graph(depth - 1, inner_name)
                children.append((real, term))
            elif r < 0.5:
                items, outs = self.branches(inner_name)
                children += items
            else:
                real, term, outs = self.leaf(inner_name)
                children.append((real, term))
            outs_inner += outs
        rng.shuffle(children)
        gname = self.fresh("G")
        node = Graph([c[0] for c in children], name=gname).as_node()
        iren, oren = {}, {}
        if inner_name != pname:
            node = node.with_inputs(**{inner_name: pname})
            iren[pname] = inner_name
        outs_outer = []
        for o in outs_inner:
            if rng.random() < 0.25:
                new = self.fresh("r")
                node = node.with_outputs(**{o: new})
                oren[new] = o
                outs_outer.append(new)
            else:
                outs_outer.append(o)
        mo = []
        if rng.random() < 0.3:
            try:
                node = node.map_over(pname)
                mo = [pname]
            except Exception:  # noqa: BLE001 - e.g. interrupts; not generated here
                mo = []
        # SPEC bookkeeping: the leaves behind this boundary, in inner node order
        k_in = 1 if mo else 0
        self.cons[id(node)] = [(k_in + k, t) for c in children for (k, t) in self.cons.get(id(c[0]), [])]
        inv = {v: k for k, v in oren.items()}
        pr = {}
        for c in children:
            for o, lst in self.prods.get(id(c[0]), {}).items():
                pr.setdefault(inv.get(o, o), []).extend((k_in + k, t) for (k, t) in lst)
        self.prods[id(node)] = pr
        dren = lambda d: c_list([c_pair(c_pos(self.N(a)), c_pos(self.N(b))) for a, b in d.items()])  # noqa: E731
        term = (f"(TGraph {c_pos(self.N(gname))} {self.names(node.inputs)} {self.names(node.outputs)} {c_list([c[1] for c in children])} "
                f"{dren(iren)} {dren(oren)} {self.names(mo)})")
        return node, term, outs_outer


def spec_verdict(prod_leaves, cons_leaves):
    """accepted iff every (leaf producer type, leaf consumer type) pair - each wrapped in list[] once per mapping level above the
    leaf - is annotated on both sides and compatible (theorem C19_boundary_leaf_pairs); judged with the real is_type_compatible,
    which the type-universe stream of this check compares with Typing.compat."""
    from hypergraph._typing import is_type_compatible

    def wrap_in(k, t):
        if t is None:
            return None
        py = base.py_of(t)
        for _ in range(k):
            py = list[py]
        return py

    def wrap_out(k, t):
        py = None if t is None else base.py_of(t)
        for _ in range(k):
            py = list if py is None else list[py]
        return py
    for (kp, tp) in prod_leaves:
        a = wrap_out(kp, tp)
        for (kc, tc) in cons_leaves:
            b = wrap_in(kc, tc)
            if a is None or b is None or not is_type_compatible(a, b):
                return False
    return True


def c_otys(N, tys):
    return c_list([c_opt(base._py2t(t), lambda x: base.coq_ty(N, x)) for t in tys])


PREAMBLE_EXTRA = """
Definition oty_eqb (a b : option ty) : bool := match a, b with Some x, Some y => ty_eqb x y | None, None => true | _, _ => false end.
Fixpoint otys_eqb (a b : list (option ty)) : bool :=
  match a, b with [] , [] => true | x :: a', y :: b' => oty_eqb x y && otys_eqb a' b' | _, _ => false end.
"""


def boundary_model_part(ctx):
    from hypergraph import Graph
    from hypergraph.graph.validation import GraphConfigError
    from hypergraph.nodes import FunctionNode
    rng = ctx.rng
    N = Names()
    batch = CoqBatch("C19b", ["Base", "Typing", "BoundaryTypes"], shard=150, preamble=base.coq_preamble() + PREAMBLE_EXTRA)
    LIST = c_pos(base.CLS_ID["list"])
    stats = {"trees": 0, "input_type_lists": 0, "output_type_lists": 0, "edges": 0, "multi_entry_lists": 0, "accepted": 0, "rejected": 0}
    i = 0
    for _ in range(ctx.n(60, 500)):
        G = Gen(rng, N)
        try:
            node, term, outs = G.graph(rng.choice([1, 2, 2, 3]), "v")
        except GraphConfigError:
            continue        # e.g. the generated inner graph is itself ill-formed (inconsistent defaults cannot occur; conflicts can)
        except Exception as e:  # noqa: BLE001
            ctx.violation("oracle", f"building a nested typed graph raised {type(e).__name__}: {e}", case={"family": "boundary_types"})
            continue
        stats["trees"] += 1
        batch.add_def(i, "t", term, "tnode")
        case = {"family": "boundary_types", "tree": term}
        for p in node.inputs:
            tys = node.get_input_types(p)
            stats["input_type_lists"] += 1
            stats["multi_entry_lists"] += int(len(tys) > 1)
            batch.add(i, 140, "otys_eqb", f"in_types {LIST} $t {c_pos(N(p))}", c_otys(N, tys))
        for o in node.outputs:
            tys = node.get_output_types(o)
            stats["output_type_lists"] += 1
            stats["multi_entry_lists"] += int(len(tys) > 1)
            batch.add(i, 141, "otys_eqb", f"out_types {LIST} $t {c_pos(N(o))}", c_otys(N, tys))
        # an edge INTO the node (outer producer of v) and an edge OUT of it (outer consumer of one output)
        pt = TY[G.pick(["int", "str", "li", None])]
        if "v" in node.inputs and getattr(node, "map_config", None) and rng.random() < 0.8:
            pt = base.C("list", TY[G.theme])           # a mapped parameter takes a list of what the inner nodes take
        prod = FunctionNode(_mkfn("prod", {}, pt), name="prod", output_name="v")
        pterm = f"(TLeaf {c_pos(N('prod'))} [] {G.names(['v'])} [] {G.cty({'v': pt})})"
        if "v" in node.inputs:
            try:
                Graph([prod, node], strict_types=True)
                verdict = True
            except GraphConfigError:
                verdict = False
            except Exception as e:  # noqa: BLE001
                ctx.violation("oracle", f"strict construction crashed: {type(e).__name__}: {e}", case=case)
                verdict = None
            if verdict is not None:
                stats["edges"] += 1
                stats["accepted" if verdict else "rejected"] += 1
                batch.add(i, 142, "Bool.eqb", f"edge_ok {LIST} SUB ANYID {pterm} $t {c_pos(N('v'))}", c_bool(verdict))
                want = spec_verdict([(0, pt)], G.cons[id(node)])
                if want != verdict:
                    ctx.violation("oracle", f"strict_types: Graph([prod() -> v: {pt}, <nested graph>]) was {'accepted' if verdict else 'rejected'}, but the leaf consumers of v behind "
                                  f"the boundary are (mapping levels, type) {G.cons[id(node)]}: every pair compatible = {want}", case=case)
        if node.outputs:
            o = rng.choice(list(node.outputs))
            ct = TY[G.pick(["int", "str", "li", None])]
            if getattr(node, "map_config", None) and rng.random() < 0.8:
                ct = base.C("list", TY[G.theme])
            cons = FunctionNode(_mkfn("cons", {o: ct}, base.INT), name="cons", output_name="cz")
            cterm = f"(TLeaf {c_pos(N('cons'))} {G.names([o])} {G.names(['cz'])} {G.cty({o: ct})} {G.cty({'cz': base.INT})})"
            try:
                Graph([node, cons], strict_types=True)
                verdict = True
            except GraphConfigError:
                verdict = False
            except Exception as e:  # noqa: BLE001
                ctx.violation("oracle", f"strict construction crashed: {type(e).__name__}: {e}", case=case)
                verdict = None
            if verdict is not None:
                stats["edges"] += 1
                stats["accepted" if verdict else "rejected"] += 1
                batch.add(i, 143, "Bool.eqb", f"edge_ok {LIST} SUB ANYID $t {cterm} {c_pos(N(o))}", c_bool(verdict))
                want = spec_verdict(G.prods[id(node)].get(o, []), [(0, ct)])
                if want != verdict:
                    ctx.violation("oracle", f"strict_types: Graph([<nested graph>, cons({o}: {ct})]) was {'accepted' if verdict else 'rejected'}, but the leaf producers of {o} behind "
                                  f"the boundary are (mapping levels, type) {G.prods[id(node)].get(o, [])}: every pair compatible = {want}", case=case)
        i += 1
    res = batch.run()
    if res["error"]:
        ctx.violation("harness", res["error"])
    what = {140: "GraphNode.get_input_types vs BoundaryTypes.in_types", 141: "GraphNode.get_output_types vs BoundaryTypes.out_types",
            142: "strict_types verdict on an edge INTO a nested graph vs BoundaryTypes.edge_ok",
            143: "strict_types verdict on an edge OUT OF a nested graph vs BoundaryTypes.edge_ok"}
    for (k, code, mv, real, mexp) in res["failed"]:
        ctx.violation("correspondence", f"{what.get(code, code)}: implementation {real[:300]} vs model {mv[:300]}", case={"family": "boundary_types", "case_index": k}, expr=mexp[:400])
    return len(batch), stats
