"""C10 — map: one result per input combination, in input order, equal to a single run.

ORACLE: (i) runner.map returns one RunResult per combination (zip: position-wise; product: cartesian, row-major in the
order the parameters are listed in map_over, computed here independently with itertools), each equal to what a single run on
that combination returns, whatever max_concurrency / completion order; (ii) for a mapping GraphNode every output is a list with
one entry per combination, None where the item failed (continue) or did not produce the output; raise mode surfaces the first
failing item's own exception object.
MODEL: Nested.generate_map_inputs / map_top / the map branch of exec_ng (collect_as_lists).
"""
from __future__ import annotations

import copy
import itertools

from harness import gen, pdl, engine
from harness.common import CoqBatch, Names, c_list, c_pos, c_nat, c_opt, canon


def F(name, ins, outs, fn, defaults=None):
    return {"name": name, "kind": "func", "inputs": list(ins), "outputs": list(outs), "emit": [], "wait_for": [], "defaults": dict(defaults or {}), "fn": fn}


def item_graph(rng):
    """The graph that gets mapped: parameters a, b, c (mapped or broadcast), k (broadcast); some items fail, some branch."""
    shape = rng.choice(["plain", "fail", "branch", "chain"])
    params = rng.sample(["a", "b", "c"], rng.randint(1, 3))
    first = params[0]
    nodes = []
    if shape == "plain":
        nodes.append(F("f", params + ["k"], ["r"], ["sym", "f"]))
    elif shape == "fail":
        nodes.append(F("f", params + ["k"], ["r"], ["raise_if_ge", rng.randint(1, 3), 300, ["sym", "f"]]))
        nodes.append(F("h", [first], ["r2"], ["sym", "h"]))
    elif shape == "chain":
        nodes.append(F("f", params, ["m"], ["sym", "f"]))
        nodes.append(F("h", ["m", "k"], ["r"], ["raise_if_ge", 99, 301, ["sym", "h"]]))
    else:
        nodes.append({"name": "gate", "kind": "ifelse", "inputs": [first], "outputs": [], "emit": [], "wait_for": [], "defaults": {},
                      "fn": ["glt", rng.randint(1, 3)], "when_true": "small", "when_false": "big", "default_open": False})
        nodes.append(F("small", params, ["s"], ["sym", "small"]))
        nodes.append(F("big", params + ["k"], ["b_out"], ["sym", "big"]))
    rng.shuffle(nodes)
    return {"nodes": nodes, "bound": {}, "entrypoints": None, "selected": None, "name": "item_g"}, params


def make_lists(rng, over, mode, allow_bad=True):
    n = rng.choice([0, 1, 2, 3, 4])
    vals = {}
    for p in over:
        ln = n if mode == "zip" else rng.choice([0, 1, 2, 3])
        vals[p] = [rng.randint(0, 4) for _ in range(ln)]
    if mode == "zip" and allow_bad and len(over) >= 2 and rng.random() < 0.12:
        vals[over[-1]] = vals[over[-1]] + [7]     # unequal lengths: must be rejected
    return vals


def combos(inputs, over, mode):
    lists = [inputs[p] for p in over]
    if mode == "zip":
        if len({len(x) for x in lists}) > 1:
            return None
        rows = list(zip(*lists))
    else:
        rows = list(itertools.product(*lists))
    base = {k: v for k, v in inputs.items() if k not in over}
    return [{**base, **dict(zip(over, row))} for row in rows]


def mutable_default_part(ctx, dist):
    """Items whose node mutates the object it receives as its SIGNATURE DEFAULT (a list / dict / nested container): every item
    of a map -- through runner.map and through a mapping GraphNode, zip and product, both runners -- is a run of its own, so its
    result equals what a single run on that combination returns and no item sees what another item appended."""
    import asyncio
    from hypergraph import AsyncRunner, Graph, SyncRunner
    from hypergraph.nodes import FunctionNode
    rng = ctx.rng
    n = 0
    mbatch = CoqBatch("C10i", ["Base", "CheckLib", "Isolation", "IsolationProofs", "MapIsolation"], shard=200)
    mi = 0
    for _ in range(ctx.n(24, 200)):
        shape = rng.choice(["list", "dict", "tuple_of_list"])
        default = {"list": [], "dict": {"log": []}, "tuple_of_list": ([], "v")}[shape]
        inner = {"list": (lambda d: d), "dict": (lambda d: d["log"]), "tuple_of_list": (lambda d: d[0])}[shape]
        is_async = rng.random() < 0.5

        def body(x, y=0, acc=default):
            inner(acc).append((x, y))
            return list(inner(acc))
        item = Graph([FunctionNode(body, name="body", output_name="r")], name="item")
        xs = [rng.randint(0, 9) for _ in range(rng.randint(1, 4))]
        two = rng.random() < 0.4
        mode = rng.choice(["zip", "product"]) if two else "zip"
        ys = [rng.randint(0, 9) for _ in range(len(xs) if mode == "zip" else rng.randint(1, 3))]
        over = ["x", "y"] if two else ["x"]
        inputs = {"x": xs, "y": ys} if two else {"x": xs}
        combos_ = (list(zip(xs, ys)) if mode == "zip" else list(itertools.product(xs, ys))) if two else [(x, 0) for x in xs]
        expected = [[c] for c in combos_]          # what a single run on that combination returns: the default plus its own entry
        via = rng.choice(["runner.map", "node"])
        case = {"default_shape": shape, "async": is_async, "via": via, "over": over, "mode": mode, "inputs": inputs}
        try:
            if via == "runner.map":
                if is_async:
                    got = [r["r"] for r in asyncio.run(AsyncRunner().map(item, inputs, map_over=over, map_mode=mode,
                                                                           max_concurrency=rng.choice([None, 1, 2])))]
                else:
                    got = [r["r"] for r in SyncRunner().map(item, inputs, map_over=over, map_mode=mode)]
            else:
                outer = Graph([item.as_node().map_over(*over, mode=mode)])
                got = (asyncio.run(AsyncRunner().run(outer, inputs)) if is_async else SyncRunner().run(outer, inputs))["r"]
        except Exception as e:  # noqa: BLE001
            ctx.violation("oracle", f"mapping items with a mutable {shape} default raised {type(e).__name__}: {e}", case=case)
            continue
        n += 1
        dist["mutable_default_items"] = dist.get("mutable_default_items", 0) + 1
        if got != expected:
            ctx.violation("oracle", f"mapped items over a node with a mutable signature default: got {got}, single runs give {expected} "
                          "(an item saw what another item put into the default)", case=case)
        # MODEL (MapIsolation): the items are runs over one heap whose cell 0 is the default's list; how many entries each item's
        # body left in the object it received for `acc` (theorem C10_items_isolated: always one)
        k = len(got)
        items_t = c_list([f"(item {i + 1})" for i in range(k)])
        sched_t = c_list([f"({i}%nat, body)" for i in range(k)])
        mbatch.add(mi, 150, "list_eqb Nat.eqb",
                   f"let '(h, rs, tr) := exec_sched [[]] {items_t} {sched_t} in map (fun st => length (nth 1 (c_after (s_call st)) [])) tr",
                   c_list([f"{len(r)}%nat" for r in got]))
        mi += 1
        if inner(default):
            ctx.violation("oracle", f"the signature default itself was modified: {default}", case=case)
    res = mbatch.run()
    if res["error"]:
        ctx.violation("harness", res["error"])
    for (ci, code, mv, real, mexp) in res["failed"]:
        ctx.violation("correspondence", f"entries each item left in its `acc` object: implementation {real} vs model (MapIsolation) {mv}", case={"family": "mutable_default", "index": ci})
    return n + len(mbatch)


def clone_part(ctx, dist):
    """clone=True / clone=[names]: every item receives its OWN deep copy of the cloned broadcast values, so an item whose node
    mutates the broadcast value (a list, a dict, a tuple or NamedTuple HOLDING a list) returns what a single run on a fresh copy
    returns - through runner.map and through a mapping GraphNode, both runners."""
    import asyncio
    import collections
    from hypergraph import AsyncRunner, Graph, SyncRunner
    from hypergraph.nodes import FunctionNode
    rng = ctx.rng
    Ledger = collections.namedtuple("Ledger", ["label", "seen"])
    makers = {"list": (lambda: [], lambda b: b), "dict": (lambda: {"seen": []}, lambda b: b["seen"]), "tuple_of_list": (lambda: ("lbl", []), lambda b: b[1]),
              "namedtuple": (lambda: Ledger("lbl", []), lambda b: b.seen), "nested_tuple": (lambda: (("k", []),), lambda b: b[0][1])}
    n = 0
    for _ in range(ctx.n(24, 200)):
        shape = rng.choice(sorted(makers))
        make, inner = makers[shape]
        is_async = rng.random() < 0.5

        def body(x, ledger):
            inner(ledger).append(x)
            return list(inner(ledger))
        item = Graph([FunctionNode(body, name="body", output_name="r")], name="item")
        xs = [rng.randint(0, 9) for _ in range(rng.randint(2, 4))]
        broadcast = make()
        clone = rng.choice([True, ["ledger"]])
        via = rng.choice(["runner.map", "node"])
        case = {"family": "clone", "shape": shape, "async": is_async, "via": via, "clone": clone, "xs": xs}
        try:
            if via == "runner.map":
                if is_async:
                    got = [r["r"] for r in asyncio.run(AsyncRunner().map(item, {"x": xs, "ledger": broadcast}, map_over="x", clone=clone,
                                                                           max_concurrency=rng.choice([None, 1, 2])))]
                else:
                    got = [r["r"] for r in SyncRunner().map(item, {"x": xs, "ledger": broadcast}, map_over="x", clone=clone)]
            else:
                outer = Graph([item.as_node().map_over("x", clone=clone)])
                got = (asyncio.run(AsyncRunner().run(outer, {"x": xs, "ledger": broadcast})) if is_async
                       else SyncRunner().run(outer, {"x": xs, "ledger": broadcast}))["r"]
        except Exception as e:  # noqa: BLE001
            ctx.violation("oracle", f"mapping with clone={clone!r} over a {shape} broadcast raised {type(e).__name__}: {e}", case=case)
            continue
        n += 1
        dist["clone_maps"] = dist.get("clone_maps", 0) + 1
        if rng.random() < 0.35:
            # the same value BOUND on the inner graph: bound values are shared on purpose and never go through clone, so the items
            # of a mapping node work on the caller's object itself (as runner.map on the bound graph does)
            shared = make()
            outer_b = Graph([item.bind(ledger=shared).as_node().map_over("x", clone=clone)])
            try:
                got_b = (asyncio.run(AsyncRunner().run(outer_b, {"x": xs})) if is_async else SyncRunner().run(outer_b, {"x": xs}))["r"]
            except Exception as e:  # noqa: BLE001
                ctx.violation("oracle", f"mapping node over an inner graph with a BOUND {shape} value and clone={clone!r} raised {type(e).__name__}: {e}",
                              case=dict(case, inner_bind=True))
                got_b = None
            n += 1
            if got_b is not None and (sorted(inner(shared)) != sorted(xs) or sorted(map(len, got_b)) != list(range(1, len(xs) + 1))):
                ctx.violation("oracle", f"a value bound on the inner graph of a mapping node (clone={clone!r}) did not reach the items as the bound object: "
                              f"the caller's object holds {inner(shared)} after items {xs}, item results {got_b}", case=dict(case, inner_bind=True))
        want = [[x] for x in xs]
        if got != want:
            ctx.violation("oracle", f"clone={clone!r}: items over a mutated {shape} broadcast returned {got}; a single run on a fresh copy returns {want} "
                          "(an item saw another item's mutation)", case=case)
        if inner(broadcast):
            ctx.violation("oracle", f"clone={clone!r}: the caller's broadcast object was modified: {broadcast!r}", case=case)
    return n


def run(ctx):
    rng = ctx.rng
    N = Names()
    batch = CoqBatch("C10", engine.IMPORTS, shard=120)
    dist = {"top_map": 0, "node_map": 0, "zip": 0, "product": 0, "empty": 0, "failing_items": 0, "unequal_zip": 0, "renamed": 0}
    nontrivial = set()
    n_eval = 0
    samples = []
    ci = 0
    for _ in range(ctx.n(400, 3000)):
        g, params = item_graph(rng)
        over = rng.sample(params, rng.randint(1, len(params)))
        mode = rng.choice(["zip", "product"])
        inputs = make_lists(rng, over, mode)
        for p in params:
            if p not in over:
                inputs[p] = rng.randint(0, 4)
        inputs["k"] = rng.randint(5, 9)
        if rng.random() < 0.3:      # caller's dict lists the keys in another order than map_over
            items = list(inputs.items())
            rng.shuffle(items)
            inputs = dict(items)
        runner = rng.choice(["sync", "async"])
        eh = rng.choice(["continue", "continue", "raise"])
        exp = combos(inputs, over, mode)
        dist[mode] += 1
        as_node = rng.random() < 0.45
        case = {"graph": g, "over": over, "mode": mode, "inputs": inputs, "runner": runner, "error_handling": eh, "as_node": as_node}
        if exp is None:
            dist["unequal_zip"] += 1
        elif not exp:
            dist["empty"] += 1
        # reference: single runs on each combination
        singles = []
        for it in (exp or []):
            singles.append(pdl.run_real(g, {"runner": runner, "inputs": it, "error_handling": "continue"}))
            n_eval += 1
        if any(s["status"] == "failed" for s in singles):
            dist["failing_items"] += 1
        if not as_node:
            dist["top_map"] += 1
            rc = {"runner": runner, "inputs": inputs, "error_handling": eh, "map": {"over": over, "mode": mode},
                  "sched_seed": rng.randint(0, 10**6), "fresh_rank": True}
            if runner == "async":
                rc["max_concurrency"] = rng.choice([None, 1, 2, 3])
            import random as _r
            rr = _r.Random(rc["sched_seed"])
            obs = pdl.run_real(g, rc, rank=(lambda name, rr=rr: rr.random()))
            n_eval += 1
            check_top(ctx, case, rc, obs, exp, singles, eh)
            # MODEL
            engine.define_case(batch, ci, N, g, {"inputs": inputs, "runner": runner})
            d = pdl.graph_depth(g) + 1
            ov = c_list([c_pos(N(x)) for x in over])
            md = "MProduct" if mode == "product" else "MZip"
            mt = f"map_top {d} {'Sync' if runner == 'sync' else 'Async'} $ng $pv {ov} {md}"
            if obs["status"] == "mapped":
                batch.add(ci, 101, "map_results_eqb", mt,
                          c_list([f"({c_nat(pdl.STATUS[r['status']])}, {pdl.c_dictval(N, r['values'])}, {c_opt(r['error'], c_pos)})" for r in obs["results"]]))
            elif exp is None:
                batch.add(ci, 102, "Bool.eqb", f"match {mt} with inl _ => true | inr _ => false end", "true")
            ci += 1
            if exp and len(exp) >= 2:
                nontrivial.add(canon(case))
        else:
            dist["node_map"] += 1
            # the mapped graph used as a node of an outer graph, its inputs possibly renamed
            gn = {"name": "mapper", "kind": "graph", "graph": copy.deepcopy(g), "inputs": [], "outputs": [], "in_hist": [], "out_hist": [],
                  "map_over": list(over), "map_mode": mode, "map_continue": eh == "continue"}
            ren = {}
            if rng.random() < 0.4:
                tgt = rng.choice(over)
                ren = {tgt: tgt + "_r"}
                gn["in_hist"] = [ren]
                gn["map_over"] = [ren.get(x, x) for x in over]
                dist["renamed"] += 1
            if rng.random() < 0.5:
                # a renamed variant of the mapping node is derived and thrown away before the node is used
                cur_over = list(gn["map_over"])
                if len(cur_over) >= 2 and rng.random() < 0.6:
                    a_, b_ = rng.sample(cur_over, 2)
                    gn["discarded_derivations"] = [{a_: b_, b_: a_}]
                else:
                    gn["discarded_derivations"] = [{rng.choice(cur_over): "elsewhere"}]
            outer = {"nodes": [gn, F("post", ["k"], ["p_out"], ["sym", "post"])], "bound": {}, "entrypoints": None, "selected": None}
            rng.shuffle(outer["nodes"])
            o_inputs = {ren.get(k, k): v for k, v in inputs.items()}
            rc = {"runner": runner, "inputs": o_inputs, "error_handling": "continue", "sched_seed": rng.randint(0, 10**6)}
            obs = pdl.run_real(outer, rc)
            n_eval += 1
            case["outer"] = outer
            check_node(ctx, case, rc, obs, exp, singles, eh, g)
            engine.define_case(batch, ci, N, outer, rc)
            if obs["status"] != "raised":
                engine.emit_model_checks(batch, ci, N, outer, rc, obs, log_mode="multiset")
            ci += 1
            if exp and len(exp) >= 2:
                nontrivial.add(canon(case))
        if len(samples) < 2:
            samples.append({k: case[k] for k in ("over", "mode", "inputs", "runner", "error_handling", "as_node")} | {"graph": g["nodes"]})
    n_eval += mutable_default_part(ctx, dist)
    n_eval += clone_part(ctx, dist)
    res = batch.run()
    if res["error"]:
        ctx.violation("harness", res["error"])
    for (cix, code, mv, real, mexp) in res["failed"]:
        ctx.violation("correspondence", f"check {code}: implementation {real} vs model {mv}", case={"case_index": cix}, expr=mexp)
    ctx.coverage.update(
        evaluations=n_eval, coq_checks=res["n"], distinct_nontrivial=len(nontrivial),
        rule="item graphs (plain / failing items / items taking different branches / chains) mapped over 1-3 parameters, list lengths 0-4, "
             "zip and product, broadcast values, unequal zip lengths, caller dicts in another key order than map_over; through runner.map "
             "(async: max_concurrency None/1/2/3 under adversarial completion orders) and through a mapping GraphNode (continue / raise, "
             "renamed mapped input); plus (oracle only) items whose node mutates its list / dict / tuple-of-list signature default, via runner.map and a mapping GraphNode, and items mutating a cloned broadcast value (clone=True / [names]); non-trivial = at least two combinations",
        distribution=dist, samples=samples, traces_validated_against_impl=n_eval, disagreements_checked=res["n"])


def same_result(a, b):
    return a["status"] == b["status"] and a["values"] == b["values"] and a.get("error") == b.get("error")


def check_top(ctx, case, rc, obs, exp, singles, eh):
    c = {**case, "run": rc}
    if exp is None:
        if obs["status"] != "raised" or obs.get("error_class") != "ValueError":
            ctx.violation("oracle", f"zip over lists of unequal length was not rejected with ValueError: {obs['status']} {obs.get('error_repr')}", case=c)
        return
    first_fail = next((k for k, s in enumerate(singles) if s["status"] == "failed"), None)
    if eh == "raise" and first_fail is not None:
        if obs["status"] != "raised" or obs["error"] != singles[first_fail]["error"]:
            ctx.violation("oracle", f"raise mode: expected the error of the first failing item (#{first_fail}: {singles[first_fail]['error']}), got {obs['status']} {obs.get('error')}", case=c, observed=obs)
        elif not obs.get("error_is_raised_object", True):
            ctx.violation("oracle", "raise mode: the propagated exception is not the object the item's node raised", case=c)
        return
    if obs["status"] != "mapped":
        ctx.violation("oracle", f"map raised {obs.get('error_repr')}", case=c)
        return
    rs = obs["results"]
    if len(rs) != len(exp):
        ctx.violation("oracle", f"{len(rs)} results for {len(exp)} input combinations", case=c, observed=rs)
        return
    for k, (r, s) in enumerate(zip(rs, singles)):
        if not same_result(r, s):
            ctx.violation("oracle", f"result #{k} differs from the single run on combination #{k}: {r['status']} {r['values']} vs {s['status']} {s['values']}",
                          case=c, observed={"map": rs, "singles": [{k2: s2[k2] for k2 in ('status', 'values', 'error')} for s2 in singles]})
            break


def check_node(ctx, case, rc, obs, exp, singles, eh, g):
    c = {**case, "run": rc}
    outs = [o for n in g["nodes"] for o in n.get("outputs", [])]
    if exp is None:
        if obs["status"] != "failed" or obs["error"] != 4:
            ctx.violation("oracle", f"mapping node with unequal zip lengths: expected a ValueError failure, got {obs['status']} {obs.get('error_repr')}", case=c)
        return
    first_fail = next((k for k, s in enumerate(singles) if s["status"] == "failed"), None)
    if eh == "raise" and first_fail is not None:
        if obs["status"] != "failed" or obs["error"] != singles[first_fail]["error"]:
            ctx.violation("oracle", f"mapping node (raise mode): expected the first failing item's error {singles[first_fail]['error']}, got {obs['status']} {obs.get('error_repr')}", case=c)
        elif not obs.get("error_is_raised_object", True):
            ctx.violation("oracle", "mapping node (raise mode): the surfaced exception is not the object raised by the item's node", case=c)
        return
    if obs["status"] != "completed":
        ctx.violation("oracle", f"run with a mapping node ended {obs['status']}: {obs.get('error_repr')}", case=c)
        return
    for o in outs:
        got = obs["values"].get(o)
        want = [(s["values"].get(o) if s["status"] == "completed" else None) for s in singles]
        if got != want:
            ctx.violation("oracle", f"output list {o!r} of the mapping node is {got}, expected one entry per combination {want}", case=c, observed=obs["values"])
            break
