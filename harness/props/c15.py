"""C15 — max_concurrency bounds all node executions globally and never deadlocks.

ORACLE on the real AsyncRunner: node bodies keep an in-flight counter and block on harness futures; an adversarial scheduler
releases a body only when the number of open bodies has stopped growing, so the framework is driven to the maximum overlap it
allows.  For k in 1..4, nesting depth <= 3, runner.map and mapping nodes with fan-out <= 5: peak <= k, peak == min(k, width) where
width is the peak of the unlimited run (the bound is actually exercised), the run terminates under a watchdog (a deadlock is a
replayable violation), and status / values equal the unlimited run.
PROOF: coq/props/C15.v — the permit discipline as a transition system over job trees (bound, progress, termination).
"""
from __future__ import annotations

import copy

from harness import gen, pdl, engine
from harness.common import canon


def F(name, ins, outs, wrap=False):
    n = {"name": name, "kind": "func", "inputs": list(ins), "outputs": list(outs), "emit": [], "wait_for": [], "defaults": {}, "fn": ["sym", name]}
    if wrap:
        n["wrap_sync"] = True
    return n


def wide_graph(rng, prefix, width, wrap_p=0.2):
    """`width` independent leaves reading x, then a join."""
    nodes = [F(f"{prefix}l{j}", ["x"], [f"{prefix}o{j}"], wrap=rng.random() < wrap_p) for j in range(width)]
    nodes.append(F(f"{prefix}join", [f"{prefix}o{j}" for j in range(width)], [f"{prefix}r"]))
    return nodes


def build_shape(rng):
    depth = rng.choice([0, 1, 2, 3])
    width = rng.randint(2, 4)
    nodes = wide_graph(rng, "a", width)
    g = {"nodes": nodes, "bound": {}, "entrypoints": None, "selected": None, "name": "top_g"}
    for lvl in range(depth):
        inner = g
        inner["name"] = f"n{lvl}_g"
        outer_nodes = [{"name": f"n{lvl}", "kind": "graph", "graph": inner, "inputs": [], "outputs": [], "in_hist": [], "out_hist": []}]
        outer_nodes += wide_graph(rng, f"s{lvl}", rng.randint(1, 3))
        rng.shuffle(outer_nodes)
        g = {"nodes": outer_nodes, "bound": {}, "entrypoints": None, "selected": None}
    kind = rng.choice(["run", "run", "topmap", "mapnode"])
    inputs = {"x": rng.randint(0, 3)}
    run_map = None
    if kind == "topmap":
        fan = rng.randint(2, 5)
        inputs = {"x": [rng.randint(0, 3) for _ in range(fan)]}
        run_map = {"over": ["x"], "mode": "zip"}
    elif kind == "mapnode":
        fan = rng.randint(2, 5)
        g["name"] = "mapper_g"
        gn = {"name": "mapper", "kind": "graph", "graph": g, "inputs": [], "outputs": [], "in_hist": [], "out_hist": [], "map_over": ["x"], "map_mode": "zip",
              "map_continue": False}
        g = {"nodes": [gn] + wide_graph(rng, "z", 2), "bound": {}, "entrypoints": None, "selected": None}
        # the outer leaves read "x" as a list too; fine for sym functions
        inputs = {"x": [rng.randint(0, 3) for _ in range(fan)]}
    return g, inputs, run_map, {"depth": depth, "kind": kind}


def outcome(obs):
    if obs["status"] == "mapped":
        return [(r["status"], r["values"], r["error"]) for r in obs["results"]]
    return (obs["status"], obs["values"], obs["error"])


def run(ctx):
    rng = ctx.rng
    dist = {"kind": {}, "depth": {}, "k": {}, "max_peak": 0}
    nontrivial = set()
    n_eval = 0
    samples = []
    for _ in range(ctx.n(100, 700)):
        g, inputs, run_map, md = build_shape(rng)
        base = {"runner": "async", "inputs": inputs, "error_handling": "continue", "hold": True, "watchdog": 30, "fresh_rank": True}
        if run_map:
            base["map"] = run_map
        import random as _r
        ref = pdl.run_real(g, dict(base), rank=(lambda name, rr=_r.Random(1): rr.random()))
        n_eval += 1
        if ref["status"] == "raised":
            ctx.violation("oracle", f"unlimited run raised {ref.get('error_repr')}", case={"graph": g, "run": base})
            continue
        width = ref.get("peak_inflight", 0)
        dist["kind"][md["kind"]] = dist["kind"].get(md["kind"], 0) + 1
        dist["depth"][md["depth"]] = dist["depth"].get(md["depth"], 0) + 1
        for k in ([1, 2, 3] if ctx.quick() else [1, 2, 3, 4]):
            rc = dict(base, max_concurrency=k)
            seed = rng.randint(0, 10**6)
            obs = pdl.run_real(g, rc, rank=(lambda name, rr=_r.Random(seed): rr.random()))
            n_eval += 1
            case = {"graph": g, "run": rc, "unlimited_peak": width}
            dist["k"][k] = dist["k"].get(k, 0) + 1
            if obs["status"] == "raised" and "Timeout" in (obs.get("error_class") or ""):
                ctx.violation("oracle", f"max_concurrency={k}: the run did not terminate within the watchdog (deadlock)", case=case)
                continue
            peak = obs.get("peak_inflight", 0)
            dist["max_peak"] = max(dist["max_peak"], peak)
            if peak > k:
                ctx.violation("oracle", f"max_concurrency={k}: {peak} node bodies were executing at once", case=case)
            elif peak != min(k, width):
                ctx.violation("harness", f"the adversarial scheduler reached only {peak} of min(k={k}, width={width}) open bodies: the bound is not exercised", case=case)
            if outcome(obs) != outcome(ref):
                ctx.violation("oracle", f"max_concurrency={k}: result differs from the unlimited run: {str(outcome(obs))[:200]} vs {str(outcome(ref))[:200]}", case=case)
            if width > k:
                nontrivial.add((canon(g["nodes"]), k))
        if len(samples) < 2:
            samples.append({"meta": md, "inputs": inputs, "unlimited_peak": width})
    ctx.coverage.update(
        evaluations=n_eval, distinct_nontrivial=len(nontrivial),
        rule="graphs of 2-4 independent leaves + join, nested 0-3 levels with further parallel leaves at each level (20% of the leaves are plain "
             "functions returning a coroutine), run directly, through runner.map (fan-out 2-5) or through a mapping node; k in 1..4 (1..3 "
             "quick); bodies held open by an adversarial scheduler; non-trivial = (shape, k) with unlimited width > k",
        distribution=dist, samples=samples)
    ctx.assumptions += ["asyncio.Semaphore wake-ups and ContextVar inheritance are runtime behaviour: exercised, not modelled"]


LEVEL = "proof"
