"""C15 — max_concurrency bounds all node executions globally and never deadlocks.

ORACLE on the real AsyncRunner: node bodies keep an in-flight counter and block on harness futures; an adversarial scheduler
releases a body only when the number of open bodies has stopped growing, so the framework is driven to the maximum overlap it
allows.  For k in 1..4, nesting depth <= 3, runner.map and mapping nodes with fan-out <= 5: peak <= k, peak == min(k, width) where
width is the peak of the unlimited run (the bound is actually exercised), the run terminates under a watchdog (a deadlock is a
replayable violation), and status / values equal the unlimited run.
PROOF: coq/props/C15.v — the permit discipline as a transition system over job trees (bound, progress, termination).
"""
from __future__ import annotations

import copy

from harness import gen, pdl, engine
from harness.common import canon


def F(name, ins, outs, wrap=False):
    n = {"name": name, "kind": "func", "inputs": list(ins), "outputs": list(outs), "emit": [], "wait_for": [], "defaults": {}, "fn": ["sym", name]}
    if wrap:
        n["wrap_sync"] = True
    return n


def wide_graph(rng, prefix, width, wrap_p=0.2):
    """`width` independent leaves reading x, then a join."""
    nodes = [F(f"{prefix}l{j}", ["x"], [f"{prefix}o{j}"], wrap=rng.random() < wrap_p) for j in range(width)]
    nodes.append(F(f"{prefix}join", [f"{prefix}o{j}" for j in range(width)], [f"{prefix}r"]))
    return nodes


def build_shape(rng):
    depth = rng.choice([0, 1, 2, 3])
    width = rng.randint(2, 4)
    nodes = wide_graph(rng, "a", width)
    g = {"nodes": nodes, "bound": {}, "entrypoints": None, "selected": None, "name": "top_g"}
    for lvl in range(depth):
        inner = g
        inner["name"] = f"n{lvl}_g"
        outer_nodes = [{"name": f"n{lvl}", "kind": "graph", "graph": inner, "inputs": [], "outputs": [], "in_hist": [], "out_hist": []}]
        outer_nodes += wide_graph(rng, f"s{lvl}", rng.randint(1, 3))
        rng.shuffle(outer_nodes)
        g = {"nodes": outer_nodes, "bound": {}, "entrypoints": None, "selected": None}
    if rng.random() < 0.25:
        # sibling nested graphs that each hold an interrupt whose ASYNC handler answers by itself: handlers are node functions too
        for j in range(rng.randint(2, 3)):
            inner = {"nodes": [{"name": f"ask{j}", "kind": "interrupt", "inputs": ["x"], "outputs": [f"ans{j}"], "emit": [], "wait_for": [], "defaults": {},
                                "fn": ["const", 40 + j], "async_handler": True}],
                     "bound": {}, "entrypoints": None, "selected": None, "name": f"rev{j}_g"}
            g["nodes"].append({"name": f"rev{j}", "kind": "graph", "graph": inner, "inputs": [], "outputs": [], "in_hist": [], "out_hist": []})
        rng.shuffle(g["nodes"])
        return g, {"x": rng.randint(0, 3)}, None, {"depth": depth, "kind": "interrupt_handlers"}
    kind = rng.choice(["run", "run", "topmap", "mapnode"])
    inputs = {"x": rng.randint(0, 3)}
    run_map = None
    if kind == "topmap":
        fan = rng.randint(2, 5)
        inputs = {"x": [rng.randint(0, 3) for _ in range(fan)]}
        run_map = {"over": ["x"], "mode": "zip"}
    elif kind == "mapnode":
        fan = rng.randint(2, 5)
        g["name"] = "mapper_g"
        gn = {"name": "mapper", "kind": "graph", "graph": g, "inputs": [], "outputs": [], "in_hist": [], "out_hist": [], "map_over": ["x"], "map_mode": "zip",
              "map_continue": False}
        g = {"nodes": [gn] + wide_graph(rng, "z", 2), "bound": {}, "entrypoints": None, "selected": None}
        # the outer leaves read "x" as a list too; fine for sym functions
        inputs = {"x": [rng.randint(0, 3) for _ in range(fan)]}
    return g, inputs, run_map, {"depth": depth, "kind": kind}


def run_history(steps, seed):
    """Several top-level calls awaited one after the other IN ONE asyncio task (what a server handler does):
    steps = [(graph, inputs, k, map)], returns per step (status or error class, peak in flight)."""
    import asyncio
    import random as _r
    from hypergraph import AsyncRunner

    async def go():
        out = []
        runner = AsyncRunner()
        for (g, inputs, k, mp) in steps:
            rr = pdl.RealRun()
            rnd = _r.Random(seed)
            ts = pdl.Turnstile(lambda name: rnd.random(), hold=True)
            G = pdl.build_graph(g, rr.env(ts), True)
            ts.task = asyncio.ensure_future(ts.controller())
            try:
                kw = {"max_concurrency": k, "error_handling": "continue"}
                if mp:
                    res = await asyncio.wait_for(runner.map(G, dict(inputs), map_over=mp["over"], map_mode="zip", **kw), timeout=30)
                    st = [r.status.value for r in res]
                else:
                    res = await asyncio.wait_for(runner.run(G, dict(inputs), max_iterations=20, **kw), timeout=30)
                    st = res.status.value
            except Exception as e:  # noqa: BLE001
                st = "raised:" + type(e).__name__
            finally:
                ts.stop = True
                await ts.task
            out.append((st, ts.peak))
        return out
    return asyncio.run(go())


def history_part(ctx, dist):
    """A limited run that fails (a node raises) or whose item fails in output unpacking must not change the bound of
    what follows: later calls in the same task, and the remaining items of the same map."""
    rng = ctx.rng
    n = 0
    for _ in range(ctx.n(40, 400)):
        width = rng.randint(2, 4)
        k1, k2 = rng.randint(2, 4), rng.randint(1, 2)
        # first call: `width` leaves, one of them raising (continue mode -> FAILED result), or an infinite-loop error
        nodes = wide_graph(rng, "f", width, wrap_p=0.0)
        bad = rng.choice(nodes[:-1])
        how = rng.choice(["fails", "fails", "pauses"])
        if how == "fails":
            bad["fn"] = ["raise", 500]
        else:
            # the first call ends PAUSED at an interrupt (PauseExecution is a BaseException: another way out of the run)
            bad = {"name": "ask", "kind": "interrupt", "inputs": ["fr"], "outputs": ["answer"], "emit": [], "wait_for": [], "defaults": {},
                   "fn": ["const", None]}
            nodes.append(bad)
        g1 = {"nodes": nodes, "bound": {}, "entrypoints": None, "selected": None, "name": "first_g"}
        g2 = {"nodes": wide_graph(rng, "s", width, wrap_p=0.0), "bound": {}, "entrypoints": None, "selected": None, "name": "second_g"}
        steps = [(g1, {"x": 1}, k1, None), (g2, {"x": 2}, k2, None)]
        res = run_history(steps, rng.randint(0, 10**6))
        n += 2
        case = {"history": [{"graph": g1, "max_concurrency": k1, how: bad["name"]}, {"graph": g2, "max_concurrency": k2}]}
        (st1, p1), (st2, p2) = res
        dist["history"] = dist.get("history", 0) + 1
        if p1 > k1 or p2 > k2:
            ctx.violation("oracle", f"after a run with max_concurrency={k1} that {how}, the next call in the same task with max_concurrency={k2} "
                          f"had {p2} bodies in flight (first call: {p1})", case=case)
        elif p2 != min(k2, width):
            ctx.violation("harness", f"history: second call reached {p2} of min({k2},{width}) open bodies", case=case)
        if st2 != "completed":
            ctx.violation("oracle", f"the call after a failed one ended {st2}", case=case)
        # a map in continue mode where one item fails in OUTPUT UNPACKING (the body returned; the permit must be given back once)
        fan = rng.randint(3, 5)
        k = rng.randint(1, 2)
        split = {"name": "split", "kind": "func", "inputs": ["x"], "outputs": ["a", "b"], "emit": [], "wait_for": [], "defaults": {},
                 "fn": ["short_if_ge", 100, ["sym", "split"]]}
        use = F("use", ["a", "b"], ["r"])
        inner_nodes = [split, use] + [F(f"l{j}", ["x"], [f"lo{j}"]) for j in range(rng.randint(1, 3))]
        rng.shuffle(inner_nodes)
        inner = {"nodes": inner_nodes, "bound": {}, "entrypoints": None, "selected": None, "name": "mapper_g"}
        gn = {"name": "mapper", "kind": "graph", "graph": inner, "inputs": [], "outputs": [], "in_hist": [], "out_hist": [],
              "map_over": ["x"], "map_mode": "zip", "map_continue": True}
        g3 = {"nodes": [gn], "bound": {}, "entrypoints": None, "selected": None, "name": "outer_g"}
        xs = [rng.randint(0, 3) for _ in range(fan)]
        xs[rng.randrange(fan - 1)] = 100        # not the last item: something still has to run afterwards
        use_map_node = rng.random() < 0.7
        if use_map_node:
            res3 = run_history([(g3, {"x": xs}, k, None)], rng.randint(0, 10**6))
        else:
            res3 = run_history([(inner, {"x": xs}, k, {"over": ["x"]})], rng.randint(0, 10**6))
        n += 1
        (st3, p3), = res3
        dist["arity_fault"] = dist.get("arity_fault", 0) + 1
        case3 = {"graph": g3 if use_map_node else inner, "run": {"x": xs, "max_concurrency": k, "error_handling": "continue", "top_level_map": not use_map_node}}
        if p3 > k:
            ctx.violation("oracle", f"max_concurrency={k}: {p3} bodies in flight in a tolerant map after an item failed in output unpacking", case=case3)
        if use_map_node and st3 != "completed":
            ctx.violation("oracle", f"a mapping node in continue mode with one item failing in output unpacking ended {st3}", case=case3)
        if not use_map_node and (not isinstance(st3, list) or st3.count("failed") != 1 or st3.count("completed") != fan - 1):
            ctx.violation("oracle", f"map (continue) with one item failing in output unpacking returned statuses {st3}", case=case3)
    return n


def outcome(obs):
    if obs["status"] == "mapped":
        return [(r["status"], r["values"], r["error"]) for r in obs["results"]]
    return (obs["status"], obs["values"], obs["error"])


def run(ctx):
    rng = ctx.rng
    dist = {"kind": {}, "depth": {}, "k": {}, "max_peak": 0}
    nontrivial = set()
    n_eval = 0
    samples = []
    for _ in range(ctx.n(100, 700)):
        g, inputs, run_map, md = build_shape(rng)
        base = {"runner": "async", "inputs": inputs, "error_handling": "continue", "hold": True, "watchdog": 30, "fresh_rank": True}
        if run_map:
            base["map"] = run_map
        import random as _r
        ref = pdl.run_real(g, dict(base), rank=(lambda name, rr=_r.Random(1): rr.random()))
        n_eval += 1
        if ref["status"] == "raised":
            ctx.violation("oracle", f"unlimited run raised {ref.get('error_repr')}", case={"graph": g, "run": base})
            continue
        width = ref.get("peak_inflight", 0)
        dist["kind"][md["kind"]] = dist["kind"].get(md["kind"], 0) + 1
        dist["depth"][md["depth"]] = dist["depth"].get(md["depth"], 0) + 1
        for k in ([1, 2, 3] if ctx.quick() else [1, 2, 3, 4]):
            rc = dict(base, max_concurrency=k)
            seed = rng.randint(0, 10**6)
            obs = pdl.run_real(g, rc, rank=(lambda name, rr=_r.Random(seed): rr.random()))
            n_eval += 1
            case = {"graph": g, "run": rc, "unlimited_peak": width}
            dist["k"][k] = dist["k"].get(k, 0) + 1
            if obs["status"] == "raised" and "Timeout" in (obs.get("error_class") or ""):
                ctx.violation("oracle", f"max_concurrency={k}: the run did not terminate within the watchdog (deadlock)", case=case)
                continue
            peak = obs.get("peak_inflight", 0)
            dist["max_peak"] = max(dist["max_peak"], peak)
            if peak > k:
                ctx.violation("oracle", f"max_concurrency={k}: {peak} node bodies were executing at once", case=case)
            elif peak != min(k, width):
                ctx.violation("harness", f"the adversarial scheduler reached only {peak} of min(k={k}, width={width}) open bodies: the bound is not exercised", case=case)
            if outcome(obs) != outcome(ref):
                ctx.violation("oracle", f"max_concurrency={k}: result differs from the unlimited run: {str(outcome(obs))[:200]} vs {str(outcome(ref))[:200]}", case=case)
            if width > k:
                nontrivial.add((canon(g["nodes"]), k))
        if len(samples) < 2:
            samples.append({"meta": md, "inputs": inputs, "unlimited_peak": width})
    n_eval += history_part(ctx, dist)
    ctx.coverage.update(
        evaluations=n_eval, distinct_nontrivial=len(nontrivial),
        rule="graphs of 2-4 independent leaves + join, nested 0-3 levels with further parallel leaves at each level (20% of the leaves are plain "
             "functions returning a coroutine; a quarter of the shapes add 2-3 sibling nested graphs whose interrupt has an async self-answering handler), run directly, through runner.map (fan-out 2-5) or through a mapping node; k in 1..4 (1..3 "
             "quick); bodies held open by an adversarial scheduler; plus histories awaited in ONE task (a limited run that fails, then a run with a "
             "smaller limit) and maps in continue mode with an item failing in output unpacking; non-trivial = (shape, k) with unlimited width > k",
        distribution=dist, samples=samples)
    ctx.assumptions += ["asyncio.Semaphore wake-ups and ContextVar inheritance are runtime behaviour: exercised, not modelled"]


LEVEL = "proof"
