"""C16 — entry points limit what runs; results hold only requested outputs.

SPEC (codes < 100): GraphDef.active_from_entrypoints (entry nodes + descendants over data/control/ordering
edges) for what may run; the key discipline of results (declared outputs, effective selection, no sentinels,
no bookkeeping keys) and on_missing are checked on the implementation's results directly.
MODEL: Engine.execute with g_active and the effective selection; `collect_selected` for missing names.
"""
from __future__ import annotations

import copy

from harness import gen, pdl, engine
from harness.common import c_list, c_pos, c_bool


def configure(rng, g):
    g = copy.deepcopy(g)
    funcs = [n["name"] for n in g["nodes"] if n["kind"] == "func"]
    outs = [o for n in g["nodes"] for o in pdl.node_outputs(n)]
    data_outs = [o for n in g["nodes"] for o in n.get("outputs", [])]
    if funcs and rng.random() < 0.45:
        g["entrypoints"] = rng.sample(funcs, rng.randint(1, min(2, len(funcs))))
    g["pre_use"] = rng.random() < 0.5
    if rng.random() < 0.08:
        g["selected"] = []      # an explicitly empty default selection
    elif data_outs and rng.random() < 0.3:
        g["selected"] = rng.sample(outs, rng.randint(1, min(3, len(outs)))) if rng.random() < 0.3 else rng.sample(data_outs, rng.randint(1, min(3, len(data_outs))))
    rc = {"error_handling": "continue", "max_iterations": 40, "runner": rng.choice(["sync", "async"]), "sched_seed": rng.randint(0, 10**6)}
    r = rng.random()
    if outs and r < 0.35:
        rc["select"] = rng.sample(outs, rng.randint(1, min(3, len(outs))))
    elif r < 0.45:
        rc["select"] = "**"
    rc["on_missing"] = rng.choice(["ignore", "ignore", "warn", "error"])
    return g, rc


def missing_error(obs):
    """on_missing='error' surfaced: ValueError('Requested outputs not found ...'), raised or carried by a FAILED result."""
    return obs["status"] in ("failed", "raised") and obs.get("error") == 4 and "Requested outputs not found" in (obs.get("error_repr") or "")


def select_forms_part(ctx):
    """The run-time selection given as a list, a tuple or a single string means the same thing: only requested OUTPUTS are
    returned; a name that is not an output of the graph (an input name, a typo) is rejected whatever the form."""
    import asyncio
    import warnings
    from hypergraph import Graph, SyncRunner, AsyncRunner
    from hypergraph.nodes import FunctionNode
    rng = ctx.rng
    n = 0

    def double(x):
        return 2 * x

    def add(doubled, b=1):
        return doubled + b

    def tag(sum):  # noqa: A002
        return ("t", sum)
    g = Graph([FunctionNode(double, name="double", output_name="doubled"), FunctionNode(add, name="add", output_name="sum"),
               FunctionNode(tag, name="tag", output_name="tagged")])
    outputs = ["doubled", "sum", "tagged"]
    for _ in range(ctx.n(40, 300)):
        names = rng.sample(outputs, rng.randint(1, 3))
        if rng.random() < 0.5:
            names.insert(rng.randrange(len(names) + 1), rng.choice(["x", "b", "typo"]))      # not an output
        if rng.random() < 0.25:
            names = [rng.choice(outputs + ["x", "b", "typo"])]        # one bare name, an output or not
        form = rng.choice(["list", "tuple"] + (["str", "str"] if len(names) == 1 else []))
        sel = list(names) if form == "list" else tuple(names) if form == "tuple" else names[0]
        is_async = rng.random() < 0.4
        inputs = {"x": rng.randint(0, 3), "b": rng.randint(0, 3)}
        valid = all(k in outputs for k in names)
        try:
            with warnings.catch_warnings():
                warnings.simplefilter("ignore")
                res = asyncio.run(AsyncRunner().run(g, inputs, select=sel)) if is_async else SyncRunner().run(g, inputs, select=sel)
            got = ("values", dict(res.values))
        except Exception as e:  # noqa: BLE001
            got = ("raised", type(e).__name__)
        n += 1
        case = {"select": repr(sel), "inputs": inputs, "async": is_async}
        if valid:
            if got[0] != "values" or set(got[1]) != set(names):
                ctx.violation("oracle", f"select={sel!r}: expected exactly the outputs {sorted(names)}, got {got}", case=case)
        elif got[0] == "values":
            ctx.violation("oracle", f"select={sel!r} names something that is not an output of the graph, yet the run returned {got[1]} "
                          f"(the list form of the same selection is rejected)", case=case)
    return n


def run(ctx):
    rng = ctx.rng
    cases = []
    dist = {"entrypoints": 0, "graph_select": 0, "run_select": 0, "on_missing": {}, "failing": 0, "family": {}}
    while len(cases) < ctx.n(600, 5000):
        g0, fam = gen.gen_program(rng, rng.choice(["dag", "dag", "gated", "emit", "loop"]))
        if rng.random() < 0.2:
            from harness.props.c02 import inject_failures
            g0 = inject_failures(rng, g0)
            dist["failing"] += 1
        g, rc = configure(rng, g0)
        try:
            g_all = copy.deepcopy(g)
            g_all["selected"] = None      # inputs for the widest scope: a run-time select may widen the graph's own
            rc["inputs"] = gen.make_inputs(rng, g_all)
            engine.real_input_spec(g)
        except Exception:  # noqa: BLE001
            continue
        dist["family"][fam] = dist["family"].get(fam, 0) + 1
        dist["entrypoints"] += int(bool(g.get("entrypoints")))
        dist["graph_select"] += int(g.get("selected") is not None)
        dist["run_select"] += int("select" in rc)
        dist["on_missing"][rc["on_missing"]] = dist["on_missing"].get(rc["on_missing"], 0) + 1
        cases.append((g, rc))
    nontrivial = set()

    def extra(i, g, rc, obs, batch, N):
        from hypergraph.nodes.base import _EMIT_SENTINEL
        msgs = []
        declared = {o for n in g["nodes"] for o in pdl.node_outputs(n)}
        sel = rc.get("select")
        eff = None
        if sel is None:
            eff = g.get("selected")
        elif sel != "**":
            eff = sel
        if g.get("entrypoints"):
            nodes_t = c_list([pdl.c_node(N, n, k + 1) for k, n in enumerate(g["nodes"])])
            eps = c_list([c_pos(N(e)) for e in g["entrypoints"]])
            batch.add(i, 1, "Bool.eqb", f"forallb (fun c : call => pos_in (fst c) (active_from_entrypoints {nodes_t} {eps})) {pdl.c_log(N, obs['log'])}", "true")
            nontrivial.add(engine.program_key(g, rc))
        if obs["status"] != "raised":
            for k, v in obs["values"].items():
                if k not in declared:
                    msgs.append(f"result holds {k!r}, which is not a declared output of the graph")
                if eff is not None and k not in eff:
                    msgs.append(f"result holds {k!r}, outside the effective selection {eff}")
                if v is _EMIT_SENTINEL:
                    msgs.append(f"result holds the ordering sentinel under {k!r}")
                if k.startswith("__"):
                    msgs.append(f"result holds the bookkeeping key {k!r}")
        # on_missing (completed runs only; failed results are filtered with the default policy)
        if eff is not None:
            names = c_list([c_pos(N(x)) for x in eff])
            missing_expr = f"negb (match snd (collect_selected (res_state $res) {names}) with [] => true | _ => false end)"
            warned = any("Requested outputs not found" in w for w in obs["warnings"])
            # oracle, straight from the property text: a selected DATA name that a completed run did not return was not produced
            emit_names = {e for nn in g["nodes"] for e in gen.iface(nn)[1] if e.startswith("sig") or e == "done"}
            if obs["status"] == "completed":
                # ... and every selected data name whose producer ran IS returned (whatever its value: None, 0, '' included)
                ran = {c[0] for c in obs["log"]}
                for nn in g["nodes"]:
                    if nn["kind"] == "func" and nn["name"] in ran:
                        for k in nn["outputs"]:
                            if k in eff and k not in obs["values"]:
                                msgs.append(f"selected output {k!r} was produced by {nn['name']!r} (which ran) but is absent from the returned values")
                not_produced = [k for k in eff if k not in obs["values"] and k not in emit_names]
                if not_produced and rc["on_missing"] == "error":
                    msgs.append(f"on_missing='error': selected output(s) {not_produced} were not produced, yet the run returned quietly")
                if not_produced and rc["on_missing"] == "warn" and not warned:
                    msgs.append(f"on_missing='warn': selected output(s) {not_produced} were not produced and no warning was issued")
            # the policy itself (Engine.select_outputs, theorem C16_on_missing) against what the caller observed, for completed runs
            pol = {"ignore": "MIgnore", "warn": "MWarn", "error": "MError"}[rc["on_missing"]]
            seen = 2 if missing_error(obs) else (1 if warned else 0)
            if obs["status"] == "completed" or missing_error(obs):
                batch.add(i, 108, "Nat.eqb",
                          f"(if Nat.eqb (res_status $res) 0 then match select_outputs {pol} (res_state $res) {names} with "
                          f"SelOk _ => 0 | SelWarn _ _ => 1 | SelError _ => 2 end else {seen})%nat", f"{seen}%nat")
            if rc["on_missing"] == "error":
                raised = missing_error(obs)
                if obs["status"] == "raised" and not raised:
                    msgs.append(f"on_missing='error' raised {obs['error_repr']} instead of ValueError")
                batch.add(i, 106, "Bool.eqb", f"Nat.eqb (res_status $res) 0 && {missing_expr}", c_bool(raised))
                nontrivial.add(engine.program_key(g, rc))
            elif obs["status"] == "completed":
                batch.add(i, 107, "Bool.eqb", f"{missing_expr} && {c_bool(rc['on_missing'] == 'warn')}", c_bool(warned))
                nontrivial.add(engine.program_key(g, rc))
        elif obs["status"] == "raised":
            msgs.append(f"run raised {obs['error_repr']}")
        return msgs

    n_forms = select_forms_part(ctx)
    obs_all, res = engine.run_cases(ctx, "C16", cases, extra=extra, want_model=lambda g, rc, obs: not missing_error(obs))
    ctx.coverage.update(
        evaluations=len(cases) + n_forms, coq_checks=res["n"], distinct_nontrivial=len(nontrivial),
        rule="dag/gated/emit/loop programs (20% with failing nodes) x entry-point sets x graph-level select x run-time select "
             "('**' or lists, emit names included) x on_missing; both runners; non-trivial = entry points configured or an explicit "
             "effective selection",
        distribution=dist, samples=[{"graph": {k: cases[0][0][k] for k in ("nodes", "entrypoints", "selected")}, "run": cases[0][1]}],
        traces_validated_against_impl=len(obs_all), disagreements_checked=res["n"])
