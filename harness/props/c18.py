"""C18 — run isolation: no state leaks between runs; caller-owned objects untouched.

PROOF: coq/props/C18.v — node calls of any number of runs interleaved arbitrarily over one heap (Isolation.v): objects no run references
(all signature-default objects) are never modified; edge / provided / bound values arrive as the very same object and a default as a
fresh one; the caller's mapping and the bindings are never written; when only default-resolved parameters are mutated no pre-existing
object changes and every body sees pristine contents.
ORACLE on the real runners: graphs whose functions append to the list objects they receive (signature defaults, also inside nested
graphs; optionally bound / provided lists), run 2-4 times sequentially on one runner, on fresh runners, sync and async, and concurrently
(asyncio.gather on one AsyncRunner with randomised suspension points), interleaved with a second graph built from the same node objects:
defaults unchanged afterwards, every body sees the pristine default, equal inputs give equal results, the caller's dict is unchanged,
the object received for a bound / provided parameter IS the bound / provided object and for a default IS NOT the default object.
CORRESPONDENCE: the recorded interleaving is executed by the model; what every body saw, produced and received (object identities)
must agree.
"""
from __future__ import annotations

import asyncio
import contextvars
import copy
import warnings

from harness.common import CoqBatch, Names, c_list, c_pair, c_pos, c_nat, c_Z, canon

IMPORTS = ["Base", "CheckLib", "Isolation", "IsolationCheck"]

_cur = contextvars.ContextVar("c18_run", default=-1)


def gen_graph(rng, pure):
    """nodes: name, inputs, defaults {p: list|int}, mutates, tag, output; plus bound {p: list|int}."""
    k = rng.randint(2, 4)
    nodes, outs = [], []
    bound = {}
    for i in range(k):
        ins = []
        if outs and rng.random() < 0.7:
            ins += rng.sample(outs, rng.randint(1, min(2, len(outs))))
        ins.append(rng.choice(["x", "y"]))                      # provided (int or list)
        dfl = {}
        for j in range(rng.randint(1, 2)):
            p = f"acc{i}_{j}" if rng.random() < 0.7 else "shared_acc"   # a default parameter, possibly shared by several nodes
            if p in ins:
                continue
            ins.append(p)
            dfl[p] = [rng.randint(0, 5) for _ in range(rng.randint(0, 2))] if rng.random() < 0.8 else rng.randint(0, 5)
        if rng.random() < 0.5:
            p = rng.choice(["cfg", "cfg2"])
            if p not in ins:
                ins.append(p)
                bound.setdefault(p, [rng.randint(0, 5)] if rng.random() < 0.7 else rng.randint(0, 5))
        ins = list(dict.fromkeys(ins))
        lists_default = [p for p in dfl if isinstance(dfl[p], list)]
        muts = [p for p in lists_default if rng.random() < 0.8]
        if not pure:
            muts += [p for p in ins if p not in dfl and p not in outs and rng.random() < 0.4]
        nodes.append({"name": f"n{i}", "inputs": ins, "defaults": dfl, "mutates": muts, "tag": rng.randint(1, 9), "output": f"o{i}"})
        outs.append(f"o{i}")
    # a binding may also sit on a parameter that HAS a signature default: the bound object wins and arrives as itself
    if rng.random() < 0.3:
        cands = [(n, p) for n in nodes for p, v in n["defaults"].items() if isinstance(v, list) and p != "shared_acc"]
        if cands:
            n_, p_ = rng.choice(cands)
            bound[p_] = [rng.randint(0, 5)]
            if pure:
                # (a bound object is shared between runs on purpose: in a 'pure' history nobody mutates it)
                for m_ in nodes:
                    if p_ in m_["mutates"]:
                        m_["mutates"].remove(p_)
    # one default value per shared parameter name (the constructor insists on consistent defaults)
    shared = None
    for n in nodes:
        if "shared_acc" in n["defaults"]:
            if shared is None:
                shared = n["defaults"]["shared_acc"]
            n["defaults"]["shared_acc"] = copy.deepcopy(shared)
            if not isinstance(shared, list) and "shared_acc" in n["mutates"]:
                n["mutates"].remove("shared_acc")
            if isinstance(shared, list) and "shared_acc" not in n["mutates"] and rng.random() < 0.5:
                n["mutates"].append("shared_acc")
    return {"nodes": nodes, "bound": bound}


class World:
    """Real objects for one history, plus the registry of pre-existing list objects (= the model's initial heap)."""

    def __init__(self, g, is_async, rng):
        self.g = g
        self.rec = []
        self.known = []       # list objects in allocation order
        self.initial = []     # their initial contents
        self.defaults = {}    # (node, param) -> object
        self.rng = rng
        self.is_async = is_async
        self.nodes = {}
        self.bound_objs = {}
        for n in g["nodes"]:
            for p, v in n["defaults"].items():
                obj = list(v) if isinstance(v, list) else v
                self.defaults[(n["name"], p)] = obj
                if isinstance(obj, list):
                    self.register(obj)
        for p, v in g["bound"].items():
            obj = list(v) if isinstance(v, list) else v
            self.bound_objs[p] = obj
            if isinstance(obj, list):
                self.register(obj)
        for n in g["nodes"]:
            self.nodes[n["name"]] = self.make_node(n)

    def register(self, obj):
        self.known.append(obj)
        self.initial.append(list(obj))
        return len(self.known) - 1

    def code(self, v):
        if not isinstance(v, list):
            return 0
        for k, o in enumerate(self.known):
            if o is v:
                return 2 + k
        return 1

    def make_node(self, n):
        from hypergraph.nodes import FunctionNode
        env = {"_rec": self.rec, "_cur": _cur, "_w": self, "asyncio": asyncio}
        parts = []
        for p in n["inputs"]:
            if p in n["defaults"]:
                env[f"_d_{p}"] = self.defaults[(n["name"], p)]
                parts.append(f"{p}=_d_{p}")
            else:
                parts.append(p)
        a = "async " if self.is_async else ""
        src = f"{a}def fn_{n['name']}(*, {', '.join(parts)}):\n"
        if self.is_async:
            src += f"    for _ in range(_w.pauses({n['name']!r})):\n        await asyncio.sleep(0)\n"
        src += f"    _args = [{', '.join(n['inputs'])}]\n"
        src += "    _before = [list(v) if isinstance(v, list) else [v] for v in _args]\n"
        src += "    _codes = [_w.code(v) for v in _args]\n"
        for p in n["mutates"]:
            src += f"    if isinstance({p}, list):\n        {p}.append({n['tag']})\n"
        src += "    _after = [list(v) if isinstance(v, list) else [v] for v in _args]\n"
        src += f"    _out = {n['tag']} + sum(sum(c) for c in _after)\n"
        src += f"    _rec.append((_cur.get(), {n['name']!r}, _codes, _before, _after, _out, [id(v) for v in _args]))\n"
        src += "    return _out\n"
        exec(src, env)
        return FunctionNode(env[f"fn_{n['name']}"], name=n["name"], output_name=n["output"])

    def pauses(self, name):
        return self.rng.randint(0, 3)

    def graph(self, subset=None, nested=False):
        from hypergraph import Graph
        names = [n["name"] for n in self.g["nodes"]] if subset is None else subset
        G = Graph([self.nodes[x] for x in names], name="inner" if nested else None)
        b = {p: self.bound_objs[p] for p in self.g["bound"] if p in G.inputs.all}
        bind_outer = nested and self.rng.random() < 0.5      # the binding sits on the ENCLOSING graph instead of the nested one
        if b and not bind_outer:
            G = G.bind(**b)
        if nested:
            from hypergraph import Graph as Gr
            from hypergraph.nodes import FunctionNode
            env = {}
            exec("def sib(*, x):\n    return 0\n", env)
            G = Gr([G.as_node(name="wrapped"), FunctionNode(env["sib"], name="sib", output_name="sib_out")])
            if b and bind_outer:
                G = G.bind(**{k_: v_ for k_, v_ in b.items() if k_ in G.inputs.all})
            self.full_spec = G.inputs
            r = self.rng.random()
            if r < 0.35:
                G = G.select("sib_out")            # the nested node is outside the selected scope but still runs
            elif r < 0.6:
                G = G.select(*self.rng.sample(list(G.outputs), self.rng.randint(1, len(G.outputs))))
        return G


def c_mval(w, v):
    if isinstance(v, list):
        k = w.code(v)
        if k < 2:
            raise ValueError("list object unknown to the model")
        return f"(MRef {k - 2})"
    return f"(MInt {c_Z(v)})"


def c_dict(N, w, d):
    return c_list([c_pair(c_pos(N(k)), c_mval(w, v)) for k, v in d.items()])


def c_node(N, w, n):
    dfl = {p: w.defaults[(n["name"], p)] for p in n["defaults"]}
    P = lambda xs: c_list([c_pos(N(x)) for x in xs])  # noqa: E731
    return f"(mk_mnode {c_pos(N(n['name']))} {P(n['inputs'])} {c_dict(N, w, dfl)} {P(n['mutates'])} {c_Z(n['tag'])} {c_pos(N(n['output']))})"


def c_zll(x):
    return c_list([c_list([c_Z(z) for z in c]) for c in x])


def one_history(ctx, rng, N, batch, ci, dist):
    pure = rng.random() < 0.6
    mode = rng.choice(["sync_same_runner", "sync_fresh_runners", "async_sequential", "async_concurrent", "async_concurrent", "nested_sync"])
    g = gen_graph(rng, pure)
    is_async = mode.startswith("async")
    w = World(g, is_async, rng)
    nested = mode == "nested_sync"
    G = w.graph(nested=nested)
    # a second graph over the same node objects (shares function defaults and bound objects)
    G2 = None
    if not nested and len(g["nodes"]) >= 2 and rng.random() < 0.5:
        G2 = w.graph(subset=[g["nodes"][0]["name"]])
    R = rng.randint(2, 4)
    spec = w.full_spec if nested else G.inputs     # a narrowed selection still executes every node: feed them all
    needed = [p for p in list(spec.all) if p not in spec.bound and not any(p in n["defaults"] for n in g["nodes"])]
    needed = list(dict.fromkeys(needed))
    base_inputs = {}
    shared_list = [rng.randint(0, 5)]
    for p in needed:
        base_inputs[p] = shared_list if (not pure and rng.random() < 0.5) else rng.randint(0, 5)
    if any(isinstance(v, list) for v in base_inputs.values()):
        w.register(shared_list)
    same_dict = rng.random() < 0.5
    run_inputs = [base_inputs if same_dict else dict(base_inputs) for _ in range(R)]
    run_graphs = [G2 if (G2 is not None and i == 1) else G for i in range(R)]
    # one run ALSO supplies its own list for a parameter that has a signature default; the later runs omit it again and must
    # get a fresh copy of the default - never the object an earlier caller passed in
    extra_run, extra_param, extra_obj = None, None, None
    dparams = sorted({p for n in g["nodes"] for p, v in n["defaults"].items() if isinstance(v, list)})
    if not same_dict and not nested and dparams and rng.random() < 0.35:
        extra_run = rng.randint(0, R - 2)
        if run_graphs[extra_run] is G:
            extra_param = rng.choice(dparams)
            extra_obj = [rng.randint(6, 9)]
            w.register(extra_obj)
            run_inputs[extra_run][extra_param] = extra_obj
            dist["extra_input_runs"] = dist.get("extra_input_runs", 0) + 1
        else:
            extra_run = None
    snap_inputs = [(id(d), [(k, id(v)) for k, v in d.items()]) for d in run_inputs]
    case = {"graph": g, "mode": mode, "runs": R, "pure": pure, "inputs": {k: (list(v) if isinstance(v, list) else v) for k, v in base_inputs.items()},
            "second_graph_run": 1 if G2 is not None else None, "extra_input": None if extra_run is None else {"run": extra_run, "param": extra_param}}
    dist["mode"][mode] = dist["mode"].get(mode, 0) + 1
    dist["pure"] += pure
    results = [None] * R
    from hypergraph import SyncRunner, AsyncRunner

    def inputs_for(i):
        gi = run_graphs[i]
        return {k: v for k, v in run_inputs[i].items() if k in gi.inputs.all} if gi is G2 else run_inputs[i]

    with warnings.catch_warnings():
        warnings.simplefilter("ignore")
        try:
            if not is_async:
                runner = SyncRunner()
                for i in range(R):
                    _cur.set(i)
                    rn = runner if mode != "sync_fresh_runners" else SyncRunner()
                    arg = inputs_for(i)
                    r = rn.run(run_graphs[i], arg)
                    results[i] = dict(r.values)
            else:
                async def main():
                    runner = AsyncRunner()

                    async def one(i):
                        _cur.set(i)
                        r = await runner.run(run_graphs[i], inputs_for(i))
                        results[i] = dict(r.values)
                    if mode == "async_sequential":
                        for i in range(R):
                            await one(i)
                    else:
                        await asyncio.gather(*[asyncio.create_task(one(i)) for i in range(R)])
                asyncio.run(main())
        except Exception as e:  # noqa: BLE001
            ctx.violation("oracle", f"a run raised {type(e).__name__}: {e}", case=case)
            return 0
    # ---------------- oracle
    for (nm, p), obj in w.defaults.items():
        init = next(n for n in g["nodes"] if n["name"] == nm)["defaults"][p]
        if obj != init:
            ctx.violation("oracle", f"the signature default of {nm}.{p} is {obj!r} after the runs, was {init!r}", case=case)
    for i, d in enumerate(run_inputs):
        if (id(d), [(k, id(v)) for k, v in d.items()]) != snap_inputs[i]:
            ctx.violation("oracle", f"the caller's input mapping of run {i} was modified: {d!r}", case=case)
    by_name = {n["name"]: n for n in g["nodes"]}
    for (rid, nm, codes, before, after, out, ids) in w.rec:
        n = by_name[nm]
        for p, code, bf in zip(n["inputs"], codes, before):
            if extra_run is not None and rid == extra_run and p == extra_param:
                xcode = 2 + next(k for k, o in enumerate(w.known) if o is extra_obj)
                if code != xcode:
                    ctx.violation("oracle", f"run {rid}: {nm}.{p} did not receive the list its caller supplied (code {code}, expected {xcode})", case=case)
            elif p in g["bound"] and p not in base_inputs and isinstance(w.bound_objs[p], list):
                bcode = 2 + next(k for k, o in enumerate(w.known) if o is w.bound_objs[p])
                if code != bcode:
                    ctx.violation("oracle", f"run {rid}: {nm}.{p} did not receive the bound object itself (code {code}, expected {bcode})", case=case)
            elif p in n["defaults"] and isinstance(n["defaults"][p], list):
                dcode = 2 + next(k for k, o in enumerate(w.known) if o is w.defaults[(nm, p)])
                if code == dcode:
                    ctx.violation("oracle", f"run {rid}: {nm} received its own default object for {p} (not a copy)", case=case)
                elif code != 1:
                    ctx.violation("oracle", f"run {rid}: {nm}.{p} received a pre-existing object (code {code}) instead of a fresh copy of the default", case=case)
                # (since fix e86f9d3 a nested run resolves its defaults itself: every inner consumer gets its own copy, as in a flat graph)
                if bf != n["defaults"][p]:
                    ctx.violation("oracle", f"run {rid}: {nm}.{p} saw {bf} on entry, the default is {n['defaults'][p]}: state leaked from another call", case=case)
            elif p in g["bound"] and p not in base_inputs and isinstance(w.bound_objs[p], list):
                bcode = 2 + next(k for k, o in enumerate(w.known) if o is w.bound_objs[p])
                if code != bcode:
                    ctx.violation("oracle", f"run {rid}: {nm}.{p} did not receive the bound object itself (code {code}, expected {bcode})", case=case)
            elif p in base_inputs and isinstance(base_inputs[p], list):
                pcode = 2 + next(k for k, o in enumerate(w.known) if o is base_inputs[p])
                if code != pcode:
                    ctx.violation("oracle", f"run {rid}: {nm}.{p} did not receive the provided object itself (code {code}, expected {pcode})", case=case)
    if pure:
        ref = {}
        for i in range(R):
            if i == extra_run:
                continue            # this run had one more input
            key = id(run_graphs[i])
            if key in ref and results[i] != ref[key]:
                ctx.violation("oracle", f"equal inputs, different results: run {i} returned {results[i]}, an earlier run {ref[key]}", case=case)
            ref.setdefault(key, results[i])
    # ---------------- model (a nested run resolves its values like the flat run of the same nodes: the same model decides both)
    try:
        n0 = len(w.known)
        node_terms = {n["name"]: c_node(N, w, n) for n in g["nodes"]}
        for nm, t in node_terms.items():
            batch.add_def(ci, f"n_{nm}", t, "mnode")
        runs = []
        for i in range(R):
            gi = run_graphs[i]
            prov = inputs_for(i)
            bnd = {p: w.bound_objs[p] for p in g["bound"] if p in (w.full_spec.all if nested else gi.inputs.all)}
            d = c_dict(N, w, prov)
            runs.append(f"(mk_mrun {d} {d} {c_dict(N, w, bnd)})")
        batch.add_def(ci, "h0", c_list([c_list([c_Z(z) for z in c]) for c in w.initial]), "mheap")
        batch.add_def(ci, "runs", c_list(runs), "list mrun")
        sched = c_list([f"({c_nat(rid)}, $n_{nm})" for (rid, nm, *_rest) in w.rec])
        batch.add_def(ci, "res", f"exec_sched $h0 $runs {sched}", "mheap * list mrun * list step_rec")
        batch.add(ci, 101, "zlll_eqb", "trace_before (final_trace $res)", c_list([c_zll(r[3]) for r in w.rec]))
        batch.add(ci, 102, "zlll_eqb", "trace_after (final_trace $res)", c_list([c_zll(r[4]) for r in w.rec]))
        batch.add(ci, 103, "list_eqb Z.eqb", "trace_out (final_trace $res)", c_list([c_Z(r[5]) for r in w.rec]))
        batch.add(ci, 104, "natll_eqb", f"trace_objs {c_nat(n0)} (final_trace $res)", c_list([c_list([c_nat(c) for c in r[2]]) for r in w.rec]))
        batch.add(ci, 105, "zll_eqb", f"firstn {c_nat(n0)} (final_heap $res)", c_zll([list(o) for o in w.known]))
    except ValueError as e:
        ctx.violation("harness", f"cannot describe the history to the model: {e}", case=case)
    return len(w.rec)


def deep_defaults_part(ctx, dist):
    """Signature defaults that are containers of mutable objects (a tuple / NamedTuple / dict / list / instance holding a
    list): a body that mutates the inner object must never change the default, whatever the container's own mutability."""
    import collections
    from hypergraph import AsyncRunner, Graph, SyncRunner
    from hypergraph.nodes import FunctionNode
    rng = ctx.rng
    Journal = collections.namedtuple("Journal", ["entries", "meta"])

    class Box:
        def __init__(self):
            self.items = []

    makers = {
        "tuple": (lambda: ([], "v1"), lambda d: d[0], lambda d: list(d[0])),
        "namedtuple": (lambda: Journal([], {}), lambda d: d.entries, lambda d: list(d.entries)),
        "nested_tuple": (lambda: (("k", [0]),), lambda d: d[0][1], lambda d: list(d[0][1])),
        "dict": (lambda: {"log": []}, lambda d: d["log"], lambda d: list(d["log"])),
        "list_of_lists": (lambda: [[1], []], lambda d: d[1], lambda d: list(d[1])),
        "instance": (Box, lambda d: d.items, lambda d: list(d.items)),
        "frozen_pair": (lambda: (frozenset({1}), [5]), lambda d: d[1], lambda d: list(d[1])),
    }
    n = 0
    for _ in range(ctx.n(30, 300)):
        shape = rng.choice(sorted(makers))
        make, inner, snap = makers[shape]
        if rng.random() < 0.6:
            # an unrelated earlier run in the same process whose node has a default of the SAME container type holding only
            # immutable members (deep-copying it returns the very object): nothing learnt from it may apply to other values
            prime = {"tuple": (2, "v0"), "namedtuple": Journal((1, 2), "m"), "nested_tuple": (("k", 0),), "dict": {},
                     "list_of_lists": [], "instance": None, "frozen_pair": (frozenset({1}), 5)}[shape]

            def primer(x, cfg=prime):
                return (x, cfg)
            try:
                SyncRunner().run(Graph([FunctionNode(primer, name="primer", output_name="p")]), {"x": 0})
            except Exception:  # noqa: BLE001
                pass
        default = make()
        pristine = snap(default)
        seen = []
        is_async = rng.random() < 0.5

        if is_async:
            async def body(x, acc=default):
                seen.append(snap(acc))
                inner(acc).append(x)
                return len(inner(acc))
        else:
            def body(x, acc=default):
                seen.append(snap(acc))
                inner(acc).append(x)
                return len(inner(acc))
        node = FunctionNode(body, name="body", output_name="count")
        G = Graph([node])
        mapped = False
        r_ = rng.random()
        if r_ < 0.3:
            G = Graph([G.as_node(name="wrapped")])
        elif r_ < 0.5:
            # the items of a mapping node are runs of their own: no item may see what another put into the default
            G = Graph([Graph([G.as_node(name="item").map_over("x")], name="m").as_node(name="pick"),
                       FunctionNode(lambda count: max(count), name="mx", output_name="peak")])
            mapped = True
        runs = rng.randint(2, 4)
        XIN = {"x": [7, 7, 7]} if mapped else {"x": 7}
        OUT = "peak" if mapped else "count"
        results = []
        try:
            if is_async:
                runner = AsyncRunner()

                async def go():
                    if rng.random() < 0.5:
                        return [r[OUT] for r in await asyncio.gather(*[runner.run(G, XIN) for _ in range(runs)])]
                    return [(await (runner if rng.random() < 0.5 else AsyncRunner()).run(G, XIN))[OUT] for _ in range(runs)]
                results = asyncio.run(go())
            else:
                runner = SyncRunner()
                results = [(runner if rng.random() < 0.5 else SyncRunner()).run(G, XIN)[OUT] for _ in range(runs)]
        except Exception as e:  # noqa: BLE001
            ctx.violation("oracle", f"run with a {shape} default raised {type(e).__name__}: {e}", case={"default_shape": shape, "async": is_async})
            continue
        n += runs
        dist["deep_defaults"] = dist.get("deep_defaults", 0) + 1
        case = {"default_shape": shape, "async": is_async, "runs": runs, "mapped_items": mapped}
        if snap(default) != pristine:
            ctx.violation("oracle", f"the signature default ({shape}) was modified by the runs: inner object is now {snap(default)}, was {pristine}", case=case)
        if any(sv != pristine for sv in seen):
            ctx.violation("oracle", f"a body saw {[sv for sv in seen if sv != pristine][0]} in its ({shape}) default on entry, the default holds {pristine}: "
                          "state leaked from an earlier run", case=case)
        if len(set(results)) != 1:
            ctx.violation("oracle", f"equal inputs gave different results across runs: {results} ({shape} default)", case=case)
    return n


def run(ctx):
    rng = ctx.rng
    N = Names()
    batch = CoqBatch("C18", IMPORTS, shard=150)
    dist = {"mode": {}, "pure": 0, "histories": 0}
    n_eval = 0
    cases = 0
    for ci in range(ctx.n(400, 2500)):
        n_eval += one_history(ctx, rng, N, batch, ci, dist)
        dist["histories"] += 1
        cases += 1
    n_eval += deep_defaults_part(ctx, dist)
    # cloned broadcast values are private per item, values BOUND on the mapped inner graph are the bound object itself
    from harness.props.c10 import clone_part
    n_eval += clone_part(ctx, dist)
    res = batch.run()
    if res["error"]:
        ctx.violation("harness", res["error"])
    names = {101: "what the bodies saw on entry", 102: "contents after the bodies ran", 103: "node outputs", 104: "which object each parameter received",
             105: "final contents of the pre-existing objects"}
    for (k, code, mv, real, mexp) in res["failed"]:
        ctx.violation("correspondence", f"{names[code]}: implementation {real[:300]} vs model {mv[:300]}", case={"history_index": k})
    ctx.coverage.update(
        evaluations=n_eval, distinct_nontrivial=dist["histories"],
        rule="graphs of 2-4 nodes; each node appends its tag to the list objects it receives for some parameters (signature defaults incl. a default "
             "parameter shared by several nodes; in non-pure histories also bound / provided lists); 2-4 runs per history, the same input mapping "
             "object or equal copies; modes: one SyncRunner, fresh SyncRunners, AsyncRunner sequential, AsyncRunner concurrent (gather, random "
             "suspension points), nested graph; every second history runs a second graph over the same node objects in between; plus (oracle only) "
             "defaults that are containers of mutable objects (tuple, NamedTuple, nested tuple, dict, list of lists, instance) mutated through the container",
        distribution=dist, model_checks=len(batch))
    ctx.assumptions += ["copy.deepcopy on lists of ints is modelled as allocation of an equal list", "nested histories are decided by the oracle only",
                        "asyncio task switching happens only at the bodies' explicit suspension points (before they read their arguments)"]


LEVEL = "proof"
TRUSTED_BASE = ["body instrumentation (records identities and contents inside the node functions)"]
