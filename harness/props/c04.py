"""C04 — loops run exactly as the gate dictates and always terminate.

SPEC (codes < 100): SpecWhile.family_loop — the sequential while (gate reads the loop variable) or do-while
(gate synchronised on the end-of-iteration signal, which can only be evaluated after an iteration).
ORACLE: final value, per-node invocation counts, and the max_iterations budget (completes iff the budget
covers the supersteps needed; otherwise InfiniteLoopError with the values computed so far).
MODEL: exact call sequence / values / error against Engine.execute.
"""
from __future__ import annotations

import copy

from harness import gen, pdl, engine
from harness.common import c_Z, c_nat, c_bool


def accum2_loop(rng, N):
    """A loop whose accumulated value has two ordered, ungated producers (both consume and produce `hist`)."""
    nodes = [
        {"name": "b1", "kind": "func", "inputs": ["x"], "outputs": ["x"], "emit": [], "wait_for": [], "defaults": {}, "fn": ["add", 1]},
        {"name": "acc1", "kind": "func", "inputs": ["hist", "x"], "outputs": ["hist", "tok"], "emit": [], "wait_for": [], "defaults": {}, "fn": ["add", 1]},
        {"name": "acc2", "kind": "func", "inputs": ["hist", "tok"], "outputs": ["hist"], "emit": [], "wait_for": [], "defaults": {}, "fn": ["add", 1]},
        {"name": "gate", "kind": "ifelse", "inputs": ["x"], "outputs": [], "emit": [], "wait_for": [], "defaults": {}, "fn": ["glt", N],
         "when_true": "b1", "when_false": "END", "default_open": True},
    ]
    rng.shuffle(nodes)
    return {"nodes": nodes, "bound": {}, "entrypoints": None, "selected": None, "loop": {"family": "accum2", "N": N}}


def late_signal_loop(rng, m, N, kind):
    """Loop family L3: the gate (closed by default) waits on a signal emitted by an auditor of the loop variable, i.e. the
    gate's data input changes one superstep BEFORE the signal it waits for is produced again."""
    nodes = []
    prev = "x"
    for j in range(1, m + 1):
        out = "x" if j == m else f"y{j}"
        nodes.append({"name": f"b{j}", "kind": "func", "inputs": [prev], "outputs": [out], "emit": [], "wait_for": [], "defaults": {}, "fn": ["add", 1]})
        prev = out
    nodes.append({"name": "aud", "kind": "func", "inputs": ["x"], "outputs": ["rep"], "emit": ["done"], "wait_for": [], "defaults": {}, "fn": ["sym", "aud"]})
    bound = m * N
    if kind == "ifelse":
        gate = {"name": "gate", "kind": "ifelse", "inputs": ["x"], "outputs": [], "emit": [], "wait_for": ["done"], "defaults": {},
                "fn": ["glt", bound], "when_true": "b1", "when_false": "END", "default_open": False}
    else:
        gate = {"name": "gate", "kind": "route", "inputs": ["x"], "outputs": [], "emit": [], "wait_for": ["done"], "defaults": {},
                "fn": ["gtable", [[k, "b1"] for k in range(0, bound)], "END"], "targets": ["b1", "END"], "multi": False, "fallback": None, "default_open": False}
    nodes.append(gate)
    rng.shuffle(nodes)
    return {"nodes": nodes, "bound": {}, "entrypoints": None, "selected": None, "loop": {"family": "L3", "m": m, "N": N, "kind": kind}}


def self_first_body_part(ctx):
    """do { count += 1; stages...; publish } while (count < limit) written with a wait_for-synchronised gate whose target - the first
    body node - is SELF-accumulating (step(count) -> count), followed by k pass-through stages and the node that emits the
    end-of-turn signal.  count must end at max(limit, 1) with exactly that many executions of `step`."""
    import asyncio
    from hypergraph import END, AsyncRunner, Graph, SyncRunner
    from hypergraph.nodes import FunctionNode, RouteNode
    rng = ctx.rng
    n = 0
    for k in (0, 1, 2, 3):
        for limit in (0, 1, 2, 3, 5):
            for runner in ("sync", "async"):
                calls = []

                def step(count):
                    calls.append(count)
                    return count + 1
                nodes = [FunctionNode(step, name="step", output_name="count")]
                prev = "count"
                for i in range(1, k + 1):
                    def stage(x):
                        return x
                    nodes.append(FunctionNode(stage, name=f"stage_{i}", output_name=f"s{i}").with_inputs(x=prev))
                    prev = f"s{i}"

                def publish(x):
                    return x
                nodes.append(FunctionNode(publish, name="publish", output_name="published", emit="turn_done").with_inputs(x=prev))

                def again(count, limit):
                    return "step" if count < limit else END
                nodes.append(RouteNode(again, targets=["step", END], wait_for="turn_done", name="again"))
                rng.shuffle(nodes)
                G = Graph(nodes)
                inputs = {"count": 0, "limit": limit}
                try:
                    res = SyncRunner().run(G, inputs, max_iterations=200) if runner == "sync" else asyncio.run(AsyncRunner().run(G, inputs, max_iterations=200))
                except Exception as e:  # noqa: BLE001
                    ctx.violation("oracle", f"self-accumulating-first-node loop raised {type(e).__name__}: {e}", case={"family": "self_first_body", "stages": k, "limit": limit})
                    continue
                n += 1
                want = max(limit, 1)
                if res.values.get("count") != want or len(calls) != want:
                    ctx.violation("oracle", f"do-while loop with a self-accumulating first body node, {k} pass-through stage(s) and a gate synchronised on the last node's signal, "
                                  f"limit {limit}: count={res.values.get('count')} after {len(calls)} executions of the body's first node, the sequential loop gives {want} / {want} "
                                  "(extra executions before the gate's first decision)", case={"family": "self_first_body", "stages": k, "limit": limit, "runner": runner})
    return n


def run(ctx):
    rng = ctx.rng
    cases, meta = [], []
    base_rc = {"error_handling": "continue"}
    combos = []
    Ns = range(0, 13) if not ctx.quick() else [0, 1, 2, 3, 5, 8, 12]
    for m in (1, 2, 3, 4):
        for N in Ns:
            for kind in ("route", "ifelse"):
                for exit_node in (False, True):
                    for ws in (False, True):
                        combos.append((m, N, kind, exit_node, ws))
    rng.shuffle(combos)
    combos = combos[: ctx.n(60, 10**6)]
    for (m, N, kind, exit_node, ws) in combos:
        g = gen.gen_loop(rng, m=m, N=N, kind=kind, exit_node=exit_node, wait_sync=ws, accum=False)
        if rng.random() < 0.3:
            # the loop entered at its first body node; an upstream node that could run on its defaults alone is out of scope:
            # it never runs and never counts as pending work (budgets are exact)
            g["nodes"].append({"name": "prep", "kind": "func", "inputs": ["scale"], "outputs": ["inc"], "emit": [], "wait_for": [],
                               "defaults": {"scale": 1}, "fn": ["add", 100]})
            for n in g["nodes"]:
                if n["name"] == "b1":
                    n["inputs"] = ["x", "inc"]
            rng.shuffle(g["nodes"])
            g["entrypoints"] = ["b1"]
            g["entry_inputs"] = {"inc": 1}
        if m >= 2 and not g.get("entrypoints") and rng.random() < 0.3:
            # a body node that is itself a nested graph (one node of the loop, one superstep per pass): the budget counts the
            # supersteps of THIS run, whatever runs are nested in its nodes
            cand = [f"b{j}" for j in range(2, m + 1) if not (ws and j == m)]
            if cand:
                g = gen.nest(rng, g, [rng.choice(cand)], "w0")
        iters = N if not ws else max(N, 1)
        need = (m + 1) * iters + (0 if ws else 1) + (1 if exit_node else 0)
        for fuel in sorted({0, max(0, need - 1), need, need + 1, 200}):      # 0 is a budget too: no superstep at all
            runner = rng.choice(["sync", "async"])
            rc = dict(base_rc, runner=runner, inputs=dict({"x": 0}, **g.get("entry_inputs", {})), max_iterations=fuel, sched_seed=rng.randint(0, 10**6))
            cases.append((g, rc))
            meta.append({"m": m, "N": N, "ws": ws, "exit": exit_node, "need": need, "fuel": fuel, "family": "L2" if ws else "L1"})
    for N in ([1, 2, 4] if ctx.quick() else range(0, 7)):
        g = accum2_loop(rng, N)
        for runner in ("sync", "async"):
            cases.append((g, dict(base_rc, runner=runner, inputs={"x": 0, "hist": 0}, max_iterations=60)))
            meta.append({"family": "accum2", "N": N})
    for m in (1, 2, 3):
        for N in ([0, 1, 2, 5] if ctx.quick() else range(0, 9)):
            g = late_signal_loop(rng, m, N, rng.choice(["route", "ifelse"]))
            cases.append((g, dict(base_rc, runner=rng.choice(["sync", "async"]), inputs={"x": 0}, max_iterations=200, sched_seed=rng.randint(0, 10**6))))
            meta.append({"family": "L3", "m": m, "N": N})
    # accumulator riding on an L1 loop (self-producer rule)
    for _ in range(ctx.n(10, 150)):
        g = gen.gen_loop(rng, accum=True)
        cases.append((g, dict(base_rc, runner=rng.choice(["sync", "async"]), inputs={"x": 0, "hist": 0}, max_iterations=200)))
        meta.append({"family": "accum1", **g["loop"]})

    nontrivial = set()

    def count(obs, name):
        return sum(1 for n, _ in obs["log"] if n == name)

    def extra(i, g, rc, obs, batch, N_):
        md = meta[i]
        msgs = []
        if md["family"] in ("L1", "L2"):
            m, N, ws = md["m"], md["N"], md["ws"]
            if m == 1 and not md["exit"] and obs["status"] in ("completed", "failed"):
                # the model programs of C04_loop_exact / C04_while_exact THEMSELVES (Samples.loop, LoopCount1.loop1), run with this
                # budget, against the implementation's run: status, body and gate invocation counts, final x
                prog = "loop" if ws else "loop1"
                rn = "Sync" if rc["runner"] == "sync" else "Async"
                lo = f"loop_obs {prog} {rn} {c_nat(md['fuel'])} {c_Z(1)} {c_Z(N)} {c_Z(0)}"
                st_real = 0 if obs["status"] == "completed" else 1
                batch.add(i, 120, "triple_nat_eqb", f"(let '(s, _, b, g) := {lo} in (s, b, g))",
                          f"({c_nat(st_real)}, {c_nat(count(obs, 'b1'))}, {c_nat(count(obs, 'gate'))})")
                if "x" in obs["values"]:
                    batch.add(i, 121, "opt_eqb val_eqb", f"(let '(_, v, _, _) := {lo} in v)", f"(Some (VInt {c_Z(obs['values']['x'])}))")
            if md["fuel"] >= md["need"]:
                # SPEC: the sequential loop
                spec = f"family_loop {c_bool(ws)} {c_Z(m)} {c_Z(m * N)} {c_Z(0)}"
                if obs["status"] != "completed":
                    msgs.append(f"budget {md['fuel']} >= needed {md['need']} supersteps but status is {obs['status']} ({obs.get('error_repr')})")
                    return msgs
                x_final = obs["values"].get("x")
                if md["exit"]:
                    res = obs["values"].get("result")
                    x_final = res[1] if isinstance(res, tuple) and len(res) == 2 else None
                # with END exit and N = 0 in L1 the body never ran: x is a plain input, not returned
                iters_real = count(obs, "b1")
                batch.add(i, 1, "opt_eqb (pair_eqb Z.eqb Nat.eqb)", spec,
                          f"Some ({c_Z(x_final if x_final is not None else 0)}, {c_nat(iters_real)})")
                for j in range(1, m + 1):
                    if count(obs, f"b{j}") != iters_real:
                        msgs.append(f"body node b{j} ran {count(obs, f'b{j}')} times, b1 ran {iters_real}")
                gate_runs = count(obs, "gate")
                exp_gate = iters_real + (0 if ws else 1)
                if gate_runs != exp_gate:
                    msgs.append(f"gate ran {gate_runs} times, expected {exp_gate} for {iters_real} iterations")
                # (with the signal-synchronised gate the exit node is also let through once before the gate first decides)
                if md["exit"] and count(obs, "finish") != (2 if ws else 1):
                    msgs.append(f"exit node ran {count(obs, 'finish')} times")
                if N >= 2:
                    nontrivial.add((m, N, ws, md["exit"], g["loop"]["kind"], md["fuel"]))
            else:
                if obs["status"] != "failed" or obs["error"] != 2:
                    msgs.append(f"budget {md['fuel']} < needed {md['need']} supersteps but the run reports {obs['status']} / {obs.get('error_repr')}")
                steps = len([1 for n, _ in obs["log"] if n != "finish"]) + (1 if (md["exit"] and not ws and count(obs, "finish")) else 0)
                if steps > md["fuel"]:
                    msgs.append(f"{steps} supersteps executed with max_iterations={md['fuel']}")
                nontrivial.add((m, N, ws, md["exit"], g["loop"]["kind"], md["fuel"]))
        elif md["family"] == "L3":
            m, N = md["m"], md["N"]
            if obs["status"] != "completed":
                msgs.append(f"late-signal loop did not complete: {obs['status']} {obs.get('error_repr')}")
            else:
                exp = {f"b{j}": N for j in range(1, m + 1)}
                exp.update(gate=N + 1, aud=N + 1)
                for nm, e in exp.items():
                    if count(obs, nm) != e:
                        msgs.append(f"{nm} ran {count(obs, nm)} times, the sequential while loop runs it {e} times (N={N})")
                if N >= 1 and obs["values"].get("x") != m * N:
                    msgs.append(f"final x is {obs['values'].get('x')}, the sequential loop ends with {m * N}")
                nontrivial.add(("L3", m, N, rc["runner"]))
        elif md["family"] == "accum2":
            N = md["N"]
            exp = max(N, 0)
            if obs["status"] != "completed":
                msgs.append(f"accumulator loop did not complete: {obs['status']} {obs.get('error_repr')}")
            else:
                for nm, e in (("b1", exp), ("acc1", exp + 1), ("acc2", exp + 1), ("gate", exp + 1)):
                    if count(obs, nm) != e:
                        msgs.append(f"{nm} ran {count(obs, nm)} times, the sequential loop runs it {e} times")
                nontrivial.add(("accum2", N, rc["runner"]))
        elif md["family"] == "accum1":
            if obs["status"] == "completed":
                n_body = count(obs, "b1")
                # the accumulator must run once per change of x (N iterations + the initial value)
                if count(obs, "acc") not in (n_body, n_body + 1):
                    msgs.append(f"accumulator ran {count(obs, 'acc')} times for {n_body} iterations")
                nontrivial.add(("accum1", md["m"], md["N"], md["kind"], md["exit"]))
        return msgs

    n_self_first = self_first_body_part(ctx)
    obs_all, res = engine.run_cases(ctx, "C04", cases, extra=extra, imports=["Samples", "LoopCount", "LoopCount1"])
    ctx.coverage.update(
        evaluations=len(cases) + n_self_first, coq_checks=res["n"], distinct_nontrivial=len(nontrivial),
        rule="loop families L1 (gate reads x) / L2 (gate waits on the last body node's emit): body length 1-4, N in 0..12, gate kinds "
             "route/ifelse, exit via END or exit node, max_iterations in {need-1, need, need+1, 200}; accumulator loops with one and with two "
             "ordered self-producers; L3: a closed-by-default gate waiting on a signal emitted by an auditor of the loop variable (the gate's input "
             "changes one superstep before its signal); both runners; non-trivial = N >= 2, or a run at the budget boundary",
        distribution={"loops": len(combos)}, samples=[{"graph": cases[0][0]["nodes"], "run": cases[0][1], "meta": meta[0]}],
        traces_validated_against_impl=len(obs_all), disagreements_checked=res["n"])
