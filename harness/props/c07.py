"""C07 — derivation operations never change the object they are called on (nor any other existing object).

PROOF: coq/props/C07.v — objects in a heap (Derive.v): every operation only allocates or fills a cache; the view of every object that
existed before is unchanged after any history (C07_views_never_change), results are new objects, siblings are independent.
ORACLE on the real objects: random histories of bind / unbind / select / with_entrypoint / add_nodes / as_node / with_name /
with_inputs (incl. swaps, empty and invalid mappings) / with_outputs / map_over, interleaved with reads that fill caches and with
runs of intermediate graphs; after EVERY operation the public snapshot (inputs spec, outputs, bindings, selection, entry points,
structure hash, node interface, defaults) of EVERY live object equals the snapshot taken when it was created; snapshots including a
run result are compared at creation and at the end; the result of an operation is a new object.
CORRESPONDENCE: the heap model executes the same history; result locations / raised operations and the final view of every object
(bindings, selection, entry points, node lists, names, inputs, outputs, rename histories, defaults, wrapped graph, map_over) must agree.
"""
from __future__ import annotations

import copy

from harness.common import CoqBatch, Names, c_list, c_pair, c_pos, c_nat, c_opt, canon
from harness import pdl

IMPORTS = ["Base", "Rename", "CheckLib", "Derive", "DeriveCheck"]


class Hist:
    """One history on the real objects, mirrored as a list of model operations."""

    def __init__(self, rng, N):
        self.rng = rng
        self.N = N
        self.rr = pdl.RealRun()
        self.env = self.rr.env()
        self.graphs = []   # (real, loc)
        self.nodes = []    # (real, loc)
        self.ng = 0        # model graph locations allocated so far
        self.nn = 0
        self.ops = []      # Coq op terms
        self.expect = []   # expected result per op: ("g", loc) | ("n", loc) | ("touch",) | ("raise",)
        self.log = []      # human-readable history for replays
        self.created = {}  # id(obj) -> cheap snapshot at creation
        self.created_full = {}
        self.fresh = 0
        self.violations = []
        self.cold = set()

    # ---- snapshots -------------------------------------------------------------------------------------------------
    def node_snap(self, n):
        # a nested-graph node seen THROUGH a derivation made now (before this snapshot reads anything from the node itself): renaming
        # its first input / output must give the same object whenever it is done - before or after the receiver was used
        probe = None
        hist0 = repr(getattr(n, "_rename_history", None))
        if hasattr(n, "map_config") and n.inputs:
            try:
                v = n.with_inputs(**{n.inputs[0]: "zz_probe_in"})
                probe = [list(v.inputs), v.map_inputs_to_params({p: i for i, p in enumerate(v.inputs)})]
                if n.outputs:
                    w = n.with_outputs(**{n.outputs[0]: "zz_probe_out"})
                    probe.append([list(w.outputs), w.map_outputs_from_original({o: i for i, o in enumerate(n.graph.outputs)})])
            except Exception as e:  # noqa: BLE001
                probe = type(e).__name__
            if repr(getattr(n, "_rename_history", None)) != hist0:
                self.violations.append(f"deriving renamed copies from node {n.name} changed the node itself: its rename history was {hist0} and is now "
                                       f"{getattr(n, '_rename_history', None)!r}")
        d = {"derived_now": probe, "name": n.name, "inputs": list(n.inputs), "outputs": list(n.outputs), "hash": n.definition_hash,
             "defaults": {p: n.get_default_for(p) for p in n.inputs if n.has_default_for(p)},
             "types": {p: repr(n.get_input_type(p)) for p in n.inputs}}
        d["param_map"] = n.map_inputs_to_params({p: i for i, p in enumerate(n.inputs)})
        if hasattr(n, "map_config"):
            d["map"] = repr(n.map_config)
            d["out_map"] = n.map_outputs_from_original({o: i for i, o in enumerate(n.graph.outputs)})
            d["graph"] = next((loc for g, loc in self.graphs if g is n.graph), "?")
        return canon(d)

    def graph_snap(self, g, run=False):
        # the object seen THROUGH derivations made now: a narrowed copy (select / with_entrypoint) must be the same whenever it is made
        probes = []
        for o in list(g.outputs)[:2]:
            try:
                ps = g.select(o).inputs
                probes.append(("select", o, list(ps.required), list(ps.optional), dict(ps.bound)))
            except Exception as e:  # noqa: BLE001
                probes.append(("select", o, type(e).__name__))
        for nn in [n.name for n in g.iter_nodes()][:2]:
            try:
                ps = g.with_entrypoint(nn).inputs
                probes.append(("entry", nn, list(ps.required), list(ps.optional), dict(ps.bound)))
            except Exception as e:  # noqa: BLE001
                probes.append(("entry", nn, type(e).__name__))
        sp = g.inputs
        # ... and seen through the wrapper made now: as_node() of THIS object exposes this object's interface, whatever relatives
        # (the graphs it was derived from, or derived from it) were wrapped before
        try:
            w = g.as_node(name="probe")
            probes.append(("as_node", list(w.inputs), list(w.outputs), {p: repr(w.get_default_for(p)) for p in w.inputs if w.has_default_for(p)}))
            want_out = list(g.selected) if g.selected is not None else list(g.outputs)
            if set(w.inputs) != set(sp.all) or sorted(w.outputs) != sorted(want_out):
                self.violations.append(f"as_node() of a graph with inputs {sorted(sp.all)} / outputs {sorted(want_out)} exposes inputs {sorted(w.inputs)} / "
                                       f"outputs {sorted(w.outputs)} (the wrapper of a relative?)")
        except Exception as e:  # noqa: BLE001
            probes.append(("as_node", type(e).__name__))
        d = {"required": list(sp.required), "optional": list(sp.optional), "entry": {k: list(v) for k, v in sp.entrypoints.items()},
             "bound": dict(sp.bound), "outputs": list(g.outputs), "selected": g.selected, "eps": g.entrypoints_config,
             "hash": g.definition_hash, "nodes": [(n.name, list(n.inputs), list(n.outputs)) for n in g.iter_nodes()], "name": g.name,
             "probes": probes}
        if run:
            d["run"] = self.run_graph(g)
        return canon(d)

    def run_graph(self, g):
        from hypergraph import SyncRunner
        sp = g.inputs
        inputs = {p: (sum(map(ord, p)) % 7) for p in list(sp.required) + list(sp.optional) if p not in sp.bound}
        import warnings
        try:
            with warnings.catch_warnings():
                warnings.simplefilter("ignore")
                r = SyncRunner().run(g, inputs, max_iterations=30, error_handling="continue")
            res = [str(getattr(r.status, "value", r.status)), {k: repr(v) for k, v in r.values.items()}]
        except Exception as e:  # noqa: BLE001
            return ["raised", type(e).__name__]
        # ... and once more with a RUN-TIME selection (relatives - the graph this one was derived from, its with_entrypoint / bind
        # copies - are run with the same selection: what one of them remembers per selection must not reach another)
        outs = sorted(g.outputs)
        if outs:
            try:
                with warnings.catch_warnings():
                    warnings.simplefilter("ignore")
                    r2 = SyncRunner().run(g, inputs, select=outs[0], max_iterations=30, error_handling="continue")
                res.append([str(getattr(r2.status, "value", r2.status)), {k: repr(v) for k, v in r2.values.items()}])
            except Exception as e:  # noqa: BLE001
                res.append(["raised", type(e).__name__])
            # the selected run is the full run restricted to that output - whatever relatives of this graph were run before
            produced = {o for n_ in g.iter_nodes() for o in n_.outputs}
            if res[0] == "completed" and outs[0] in res[1] and res[-1] != ["completed", {outs[0]: res[1][outs[0]]}] \
                    and not (set(sp.bound) & produced) and set(sp.bound) <= set(g._bound):
                # (not judged: a bound OUTPUT name - known finding F-g's territory - and bindings that live in a nested graph, which
                #  leave the scope together with their nested-graph node when the selection excludes it)
                self.violations.append(f"run with select={outs[0]!r} gives {res[-1]}, the same call without select completes with {outs[0]}={res[1][outs[0]]} "
                                       f"(entry points {g.entrypoints_config}; something remembered for a relative of this graph?) "
                                       f"nodes={[(n_.name, list(n_.inputs), list(n_.outputs), type(n_).__name__) for n_ in g.iter_nodes()]} inputs={inputs} bound={dict(sp.bound)} selected={g.selected}")
        return res

    def cool(self, obj):
        """A 'cold' object is left as if nobody had looked at it: what the harness's own snapshot cached is dropped again, so the
        next snapshot recomputes from the object's current fields (a 'warm' object keeps its caches)."""
        if id(obj) in self.cold:
            from hypergraph import Graph
            for k in (("inputs",) if isinstance(obj, Graph) else ("defaults", "parameter_annotations")):
                obj.__dict__.pop(k, None)

    def register(self, kind, obj, loc):
        (self.graphs if kind == "g" else self.nodes).append((obj, loc))
        if self.rng.random() < 0.5:
            self.cold.add(id(obj))
        self.created[id(obj)] = self.graph_snap(obj) if kind == "g" else self.node_snap(obj)
        if kind == "g":
            self.created_full[id(obj)] = self.graph_snap(obj, run=True)
        self.cool(obj)

    def check_all(self, what, full=False):
        for g, loc in self.graphs:
            s = self.graph_snap(g, run=full)
            self.cool(g)
            ref = (self.created_full if full else self.created)[id(g)]
            if s != ref:
                self.violations.append(f"after {what}: graph object #{loc} changed: {_diff(ref, s)}")
        for n, loc in self.nodes:
            s = self.node_snap(n)
            self.cool(n)
            if s != self.created[id(n)]:
                self.violations.append(f"after {what}: node object #{loc} ({n.name}) changed: {_diff(self.created[id(n)], s)}")

    # ---- operations ------------------------------------------------------------------------------------------------
    def P(self, xs):
        return c_list([c_pos(self.N(x)) for x in xs])

    def batch_term(self, m):
        return c_list([c_pair(c_pos(self.N(a)), c_pos(self.N(b))) for a, b in m.items()])

    def emit(self, term, expect, text):
        self.ops.append(term)
        self.expect.append(expect)
        self.log.append(text)

    def new_name(self, px):
        self.fresh += 1
        return f"{px}{self.fresh}"

    def op_new_node(self):
        rng = self.rng
        nm = self.new_name("f")
        pool = list(dict.fromkeys(["a", "b", "c", "d"] + [o for n, _ in self.nodes for o in n.outputs][:6]))
        ins = rng.sample(pool, rng.randint(1, min(3, len(pool))))
        outs = [self.new_name("v")]
        dfl = {p: rng.randint(0, 9) for p in ins if p in ("a", "b", "c", "d") and rng.random() < 0.3}
        n = {"name": nm, "kind": "func", "inputs": ins, "outputs": outs, "emit": [], "wait_for": [], "defaults": dfl, "fn": ["sym", nm]}
        real = pdl.build_node(n, self.env)
        self.emit(f"(ONode {c_pos(self.N(nm))} {self.P(ins)} {self.P(outs)} {pdl.c_dictval(self.N, dfl)})", ("n", self.nn), f"node {nm}({ins}) -> {outs} defaults {dfl}")
        self.register("n", real, self.nn)
        self.nn += 1

    def op_new_graph(self):
        from hypergraph import Graph
        rng = self.rng
        if not self.nodes:
            return
        cand = rng.sample(self.nodes, min(len(self.nodes), rng.randint(1, 4)))
        names, outs, chosen = set(), set(), []
        for n, loc in cand:
            if n.name in names or outs & set(n.outputs) or (set(n.outputs) & set(n.inputs)):
                continue
            if hasattr(n, "graph") and any(n.name in x.outputs for x, _ in chosen):
                continue
            names.add(n.name)
            outs |= set(n.outputs)
            chosen.append((n, loc))
        try:
            g = Graph([n for n, _ in chosen])
        except Exception:  # noqa: BLE001
            return
        self.emit(f"(OGraph {c_list([c_nat(loc) for _, loc in chosen])})", ("g", self.ng), f"Graph({[n.name for n, _ in chosen]})")
        self.register("g", g, self.ng)
        self.ng += 1

    def _do(self, kind, fn, term_ok, text, n_new=1):
        """Runs a derivation on the real object; records the model operation with its expected outcome."""
        try:
            new = fn()
        except Exception as e:  # noqa: BLE001
            return None, e
        loc = (self.ng if kind == "g" else self.nn) + n_new - 1
        self.emit(term_ok, (kind, loc), text)
        if kind == "g":
            self.ng += n_new
        else:
            self.nn += n_new
        self.register(kind, new, loc)
        return new, None

    def op_graph(self):
        rng = self.rng
        if not self.graphs:
            return
        g, loc = rng.choice(self.graphs)
        k = rng.choice(["bind", "bind", "unbind", "select", "entry", "add", "add0", "as_node", "touch", "run", "bad"])
        if k == "bind":
            emit_only = g._get_emit_only_outputs()
            keys = [x for x in list(g.inputs.all) + list(g.outputs) if x not in emit_only]
            if not keys:
                return
            vals = {x: rng.randint(0, 9) for x in rng.sample(keys, rng.randint(1, min(2, len(keys))))}
            new, err = self._do("g", lambda: g.bind(**vals), f"(OBind {c_nat(loc)} {pdl.c_dictval(self.N, vals)})", f"#{loc}.bind({vals})")
            if err is None and new is g:
                self.violations.append("bind returned the receiver itself")
        elif k == "unbind":
            keys = rng.sample(list(g._bound) + ["zz"], rng.randint(1, min(2, len(g._bound) + 1)))
            self._do("g", lambda: g.unbind(*keys), f"(OUnbind {c_nat(loc)} {self.P(keys)})", f"#{loc}.unbind({keys})")
        elif k == "select":
            outs = list(g.outputs)
            if not outs:
                return
            sel = rng.sample(outs, rng.randint(1, min(2, len(outs))))
            self._do("g", lambda: g.select(*sel), f"(OSelect {c_nat(loc)} {self.P(sel)})", f"#{loc}.select({sel})")
        elif k == "entry":
            names = [n.name for n in g.iter_nodes()]
            if not names:
                return
            eps = rng.sample(names, rng.randint(1, min(2, len(names))))
            self._do("g", lambda: g.with_entrypoint(*eps), f"(OEntry {c_nat(loc)} {self.P(eps)})", f"#{loc}.with_entrypoint({eps})")
        elif k in ("add", "add0"):
            have = {n.name for n in g.iter_nodes()}
            outs = set(g.outputs)
            extra = [] if k == "add0" else [(n, l) for n, l in self.nodes if n.name not in have and not (set(n.outputs) & outs) and not hasattr(n, "graph")][:rng.randint(1, 2)]
            if k == "add" and (not extra or len({n.name for n, _ in extra}) < len(extra)):
                return
            term = f"(OAddNodes {c_nat(loc)} {c_list([c_nat(l) for _, l in extra])})"
            if not extra:
                try:
                    new = g.add_nodes()
                except Exception:  # noqa: BLE001
                    return
                self.emit(term, ("g", loc), f"#{loc}.add_nodes()")
                if new is not g:
                    self.register("g", new, loc)
                return
            n_new = 2 if g.selected is not None else 1
            self._do("g", lambda: g.add_nodes(*[n for n, _ in extra]), term, f"#{loc}.add_nodes({[n.name for n, _ in extra]})", n_new=n_new)
        elif k == "as_node":
            nm = self.new_name("gn")
            try:
                gn = g.as_node(name=nm)
            except Exception:  # noqa: BLE001
                return
            self.emit(f"(OAsNode {c_nat(loc)} {c_pos(self.N(nm))} {self.P(gn.inputs)} {self.P(gn.outputs)})", ("n", self.nn), f"#{loc}.as_node({nm})")
            self.register("n", gn, self.nn)
            self.nn += 1
        elif k == "touch":
            _ = g.inputs, g.definition_hash, g.outputs
            self.emit(f"(OTouchG {c_nat(loc)})", ("touch",), f"read #{loc}.inputs")
        elif k == "run":
            self.run_graph(g)
            self.log.append(f"run #{loc}")
        else:
            # operations that must raise and change nothing (not sent to the model: it does not decide these errors)
            for bad in (lambda: g.bind(no_such_name=1), lambda: g.select("no_such_output"), lambda: g.with_entrypoint("no_such_node")):
                try:
                    bad()
                    self.violations.append("an invalid derivation did not raise")
                except Exception:  # noqa: BLE001
                    pass
            self.log.append(f"invalid operations on #{loc}")

    def op_node(self):
        rng = self.rng
        if not self.nodes:
            return
        n, loc = rng.choice(self.nodes)
        k = rng.choice(["name", "inputs", "inputs", "outputs", "map", "touch", "empty"])
        if k == "name":
            nm = self.new_name("r")
            self._do("n", lambda: n.with_name(nm), f"(OWithName {c_nat(loc)} {c_pos(self.N(nm))})", f"node#{loc}.with_name({nm})")
        elif k in ("inputs", "outputs"):
            cur = list(n.inputs if k == "inputs" else n.outputs)
            if not cur:
                return
            style = rng.choice(["one", "swap", "dup", "unknown", "two"])
            if style == "one":
                m = {rng.choice(cur): self.new_name("p")}
            elif style == "swap" and len(cur) >= 2:
                a, b = rng.sample(cur, 2)
                m = {a: b, b: a}
            elif style == "dup" and len(cur) >= 2:
                a, b = rng.sample(cur, 2)
                m = {a: b}
            elif style == "unknown":
                m = {"nope": "x"}
            else:
                m = {x: self.new_name("q") for x in rng.sample(cur, min(2, len(cur)))}
            ctor = "OWithInputs" if k == "inputs" else "OWithOutputs"
            term = f"({ctor} {c_nat(loc)} {self.batch_term(m)})"
            fn = (lambda: n.with_inputs(m)) if k == "inputs" else (lambda: n.with_outputs(m))
            new, err = self._do("n", fn, term, f"node#{loc}.with_{k}({m})")
            if err is not None:
                self.emit(term, ("raise",), f"node#{loc}.with_{k}({m}) raised {type(err).__name__}")
        elif k == "empty":
            self._do("n", lambda: n.with_inputs({}), f"(OWithInputs {c_nat(loc)} [])", f"node#{loc}.with_inputs({{}})")
        elif k == "map":
            if not hasattr(n, "map_over") or not n.inputs:
                return
            ps = rng.sample(list(n.inputs), rng.randint(1, min(2, len(n.inputs))))
            new, err = self._do("n", lambda: n.map_over(*ps), f"(OMapOver {c_nat(loc)} {self.P(ps)})", f"node#{loc}.map_over({ps})")
            if err is None and new is not None and rng.random() < 0.6:
                # derive from the mapped node by renaming a mapped parameter: the mapped node (the receiver) must keep its map_over list
                loc2 = self.nn - 1
                m = {rng.choice(ps): self.new_name("p")}
                term = f"(OWithInputs {c_nat(loc2)} {self.batch_term(m)})"
                _new2, err2 = self._do("n", lambda: new.with_inputs(m), term, f"node#{loc2}.with_inputs({m})")
                if err2 is not None:
                    self.emit(term, ("raise",), f"node#{loc2}.with_inputs({m}) raised {type(err2).__name__}")
        else:
            for p in n.inputs:
                n.has_default_for(p)
                n.get_input_type(p)
            _ = n.definition_hash, n.nx_attrs
            if hasattr(n, "defaults"):
                _ = n.defaults
            self.emit(f"(OTouchN {c_nat(loc)})", ("touch",), f"read node#{loc}.defaults")

    def step(self):
        r = self.rng.random()
        if r < 0.12 or not self.nodes:
            self.op_new_node()
        elif r < 0.25 or not self.graphs:
            self.op_new_graph()
        elif r < 0.65:
            self.op_graph()
        else:
            self.op_node()
        self.check_all(self.log[-1] if self.log else "start")

    # ---- model side --------------------------------------------------------------------------------------------------
    def real_gview(self, g):
        locs = []
        for n in g.iter_nodes():
            locs.append(next((l for x, l in self.nodes if x is n), 10**6))
        return (f"(mk_gview {c_list([c_nat(l) for l in locs])} {pdl.c_dictval(self.N, dict(g._bound))} {c_opt(g.selected, self.P)} "
                f"{c_opt(g.entrypoints_config, self.P)} ([], None, None))")

    def real_nview(self, n):
        hin, hout = [], []
        by_batch = {}
        for e in n._rename_history:
            if e.kind in ("inputs", "outputs"):
                by_batch.setdefault((e.kind, e.batch_id), []).append((e.old, e.new))
        for (kind, _), items in by_batch.items():
            (hin if kind == "inputs" else hout).append(c_list([c_pair(c_pos(self.N(a)), c_pos(self.N(b))) for a, b in items]))
        dfl = {p: n.get_default_for(p) for p in n.inputs if n.has_default_for(p)} if not hasattr(n, "graph") else {}
        gl = "None"
        mp = "None"
        if hasattr(n, "graph"):
            gl = c_opt(next((l for g, l in self.graphs if g is n.graph), 10**6), c_nat)
            mp = c_opt(n._map_over, self.P)
        return (f"(mk_nview {c_pos(self.N(n.name))} {self.P(n.inputs)} {self.P(n.outputs)} ({c_list(hin)}, {c_list(hout)}) "
                f"{pdl.c_dictval(self.N, dfl)} {gl} {mp})")


def _diff(a, b):
    import json
    da, db = json.loads(a), json.loads(b)
    return {k: (da.get(k), db.get(k)) for k in set(da) | set(db) if da.get(k) != db.get(k)}


def nested_binding_part(ctx):
    """A graph holding a nested graph with its own bindings next to unrelated nodes: whatever is derived from it and thrown away
    (bind, rejected bind, unbind, select, with_entrypoint, add_nodes, as_node, reading .inputs, a run), the graph seen through a
    narrowing derivation made AFTERWARDS is what it was before, and what an identically built, never touched twin shows."""
    import warnings
    from hypergraph import Graph, SyncRunner
    from hypergraph.nodes import FunctionNode
    rng = ctx.rng
    n = 0
    for _ in range(ctx.n(40, 400)):
        depth = rng.choice([1, 1, 2])
        inner_bind = {"k": rng.randint(1, 9)}
        if rng.random() < 0.4:
            inner_bind["m"] = rng.randint(1, 9)

        def build():
            def scale(x, k, m=1):
                return ("scale", x, k, m)

            def shift(y):
                return ("shift", y)

            def tail(a_out, z=0):
                return ("tail", a_out, z)
            sub = Graph([FunctionNode(scale, name="scale", output_name="a_out")], name="sub").bind(**inner_bind)
            w = sub.as_node()
            for _d in range(depth - 1):
                w = Graph([w], name=f"wrap{_d}").as_node()
            nodes = [w, FunctionNode(shift, name="shift", output_name="b_out")]
            if rng.random() < 0.5:
                nodes.append(FunctionNode(tail, name="tail", output_name="c_out"))
            return Graph(nodes)
        st = rng.getstate()
        outer = build()
        rng.setstate(st)
        twin = build()

        def view(g):
            out = []
            for mk in (lambda: g.select("b_out"), lambda: g.with_entrypoint("shift")):
                try:
                    sp = mk().inputs
                    out.append((tuple(sp.required), tuple(sp.optional), tuple(sorted(sp.bound.items()))))
                except Exception as e:  # noqa: BLE001
                    out.append(type(e).__name__)
            return out
        before = view(outer)
        ops = []
        for _j in range(rng.randint(1, 4)):
            op = rng.choice(["bind", "bad_bind", "unbind", "select", "entry", "inputs", "as_node", "add", "run"])
            ops.append(op)
            try:
                with warnings.catch_warnings():
                    warnings.simplefilter("ignore")
                    if op == "bind":
                        outer.bind(y=0)
                    elif op == "bad_bind":
                        outer.bind(not_an_input=1)
                    elif op == "unbind":
                        outer.unbind("y")
                    elif op == "select":
                        outer.select("a_out")
                    elif op == "entry":
                        outer.with_entrypoint("shift")
                    elif op == "inputs":
                        _ = outer.inputs
                    elif op == "as_node":
                        outer.as_node(name="again")
                    elif op == "add":
                        def extra(b_out):
                            return b_out
                        outer.add_nodes(FunctionNode(extra, name="extra", output_name="e_out"))
                    else:
                        SyncRunner().run(outer, {"x": 1, "y": 2}, error_handling="continue")
            except Exception:  # noqa: BLE001
                pass
            n += 1
            after = view(outer)
            if after != before or after != view(twin):
                ctx.violation("oracle", f"after the discarded derivations {ops} the graph, seen through select('b_out') / with_entrypoint('shift'), "
                              f"changed from {before} to {after} (never touched twin: {view(twin)})",
                              case={"inner_bind": inner_bind, "depth": depth, "ops": ops})
                break
    return n


def run(ctx):
    rng = ctx.rng
    N = Names()
    n_nested = nested_binding_part(ctx)
    pre = ("Definition GV (h : heap) (l : nat) : gview := nth l (all_gviews h) (mk_gview [] [] None None ([], None, None)).\n"
           "Definition NV (h : heap) (l : nat) : nview := nth l (all_nviews h) (mk_nview 1%positive [] [] ([], []) [] None None).\n")
    batch = CoqBatch("C07", IMPORTS, shard=200, preamble=pre)
    dist = {"ops": {}, "histories": 0, "raised_ops": 0, "objects": 0, "max_len": 0}
    nontrivial = set()
    n_eval = 0
    cases = {}
    for ci in range(ctx.n(200, 900)):
        H = Hist(rng, N)
        for _ in range(rng.randint(8, 26 if ctx.quick() else 40)):
            try:
                H.step()
            except Exception as e:  # noqa: BLE001
                import traceback
                ctx.violation("harness", f"history driver crashed: {type(e).__name__}: {e}", case={"history": H.log}, trace=traceback.format_exc()[-1200:])
                break
        H.check_all("the whole history (with run results)", full=True)
        n_eval += len(H.log)
        dist["histories"] += 1
        dist["objects"] += len(H.graphs) + len(H.nodes)
        dist["max_len"] = max(dist["max_len"], len(H.ops))
        for t in H.log:
            k = t.split("(")[0].split(".")[-1].split(" ")[0]
            dist["ops"][k] = dist["ops"].get(k, 0) + 1
        dist["raised_ops"] += sum(1 for e in H.expect if e == ("raise",))
        case = {"history": H.log}
        cases[ci] = case
        for v in H.violations[:3]:
            ctx.violation("oracle", v, case=case)
        if len(H.graphs) >= 2 and len(H.nodes) >= 2:
            nontrivial.add(canon(H.log))
        # model
        batch.add_def(ci, "ops", c_list(H.ops), "list op")
        batch.add_def(ci, "h", "run_ops empty_heap $ops", "heap")
        exp = []
        for e in H.expect:
            exp.append("None" if e == ("raise",) else "(Some None)" if e == ("touch",) else f"(Some (Some {c_nat(e[1])}))")
        batch.add(ci, 101, "list_eqb res_eqb", "run_results empty_heap $ops", c_list(exp))
        seen = set()
        for g, loc in H.graphs:
            if loc in seen:
                continue
            seen.add(loc)
            batch.add(ci, 102, "gview_eqb", f"GV $h {c_nat(loc)}", H.real_gview(g))
        seen = set()
        for n, loc in H.nodes:
            if loc in seen:
                continue
            seen.add(loc)
            batch.add(ci, 103, "nview_eqb", f"NV $h {c_nat(loc)}", H.real_nview(n))
    res = batch.run()
    if res["error"]:
        ctx.violation("harness", res["error"])
    for (k, code, mv, real, mexp) in res["failed"]:
        what = {101: "operation results (new object / raised)", 102: "final view of a graph object", 103: "final view of a node object"}[code]
        ctx.violation("correspondence", f"{what}: implementation {real[:300]} vs model {mv[:300]}", case=cases.get(k), expr=mexp)
    ctx.coverage.update(
        evaluations=n_eval + n_nested, distinct_nontrivial=len(nontrivial),
        rule="histories of 8-26 (40 thorough) operations over a growing pool of function nodes, graphs and graph nodes: new node / new graph / bind / unbind / "
             "select / with_entrypoint / add_nodes (also with no nodes) / as_node / with_name / with_inputs and with_outputs (single, double, swap, "
             "duplicate-producing, unknown, empty) / map_over / cache-filling reads / runs / invalid calls; every live object re-snapshotted after every "
             "operation; non-trivial = distinct history with >= 2 graphs and >= 2 nodes",
        distribution=dist, samples=[c["history"][:12] for c in list(cases.values())[:2]], model_checks=len(batch))
    ctx.assumptions += ["the interface (inputs, outputs) of a GraphNode at creation is read from the real wrapper (C05/C08 decide it)",
                        "bind / select / with_entrypoint argument validation is not modelled: only calls that succeed are sent to the model; failing ones are "
                        "checked by the oracle (raise, nothing changes)",
                        "the structure hash and the run result are compared by the oracle only (the model carries the data they are computed from)"]


LEVEL = "proof"
TRUSTED_BASE = ["history generator and the Python mirror that numbers model locations (checked against run_results)"]
