import asyncio, warnings
warnings.simplefilter("ignore")
from hypergraph import Graph, AsyncRunner
from hypergraph.nodes import FunctionNode, InterruptNode
def h(q): return None
inner = Graph([InterruptNode(h, name="ask", output_name="ans"), FunctionNode(lambda ans: ("got", ans), name="fin", output_name="res")], name="inner")
outer = Graph([inner.as_node()])
r = asyncio.run(AsyncRunner().run(outer, {"q": 1}))
print(r.status, r.pause.node_name, r.pause.response_key)          # PAUSED inner/ask inner.ans
r2 = asyncio.run(AsyncRunner().run(outer, {"q": 1, r.pause.response_key: "A"}))
print(r2.status, r2.pause and r2.pause.node_name, dict(r2.values))  # PAUSED inner/ask {} -- the response never reaches the nested run
