"""Observation 3 (unchanged library): a node that runs in the same superstep as a
NESTED graph that pauses is executed, but its value is thrown away.

Top-level interrupts are run alone in their superstep (siblings are deferred),
so nothing is computed-and-lost.  A GraphNode containing an interrupt is not
isolated: its ready siblings run concurrently, the nested pause propagates, and
the runner reports the state from BEFORE the superstep.  The sibling's function
has been called (side effects happened) yet its output is missing from the
PAUSED result ("values computed before the pause are returned"), and it is
computed a second time on resume.  Flat graph for comparison: the sibling is not
run at all.  Exit 1 when a computed value is missing from the paused result.
"""
import asyncio
import sys

from hypergraph import AsyncRunner, Graph, interrupt, node

calls: list[str] = []


@interrupt(output_name="y")
def approval(x: str): ...


@node(output_name="audit")
def sibling(x: str) -> str:
    calls.append("sibling")
    return "audit:" + x


@node(output_name="result")
def consume(y: str, audit: str) -> str:
    return f"{y} {audit}"


async def main() -> int:
    runner = AsyncRunner()
    flat = Graph([sibling, approval, consume])
    nested = Graph([sibling, Graph([approval], name="inner").as_node(), consume])

    r_flat = await runner.run(flat, {"x": "hello"})
    print("flat  :", r_flat.status, dict(r_flat.values), "sibling calls:", calls.count("sibling"))
    calls.clear()
    r_nested = await runner.run(nested, {"x": "hello"})
    ran = calls.count("sibling")
    print("nested:", r_nested.status, dict(r_nested.values), "sibling calls:", ran)
    if ran and "audit" not in r_nested.values:
        print("LOST: sibling() was executed during the paused run but 'audit' is not in the returned values")
        return 1
    return 0


sys.exit(asyncio.run(main()))
