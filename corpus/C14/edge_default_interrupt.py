import asyncio
from hypergraph import Graph, node, interrupt, AsyncRunner
@node(output_name="draft")
def write(x): return f"draft{x}"
@interrupt(output_name="verdict")
def review(draft="(nothing yet)"): return None
@node(output_name="final")
def publish(verdict): return f"published:{verdict}"
g = Graph([write, review, publish])
r1 = asyncio.run(AsyncRunner().run(g, {"x": 1}))
print(r1.status, r1.pause.value, r1.pause.response_key)
r2 = asyncio.run(AsyncRunner().run(g, {"x": 1, r1.pause.response_key: "ok"}))
print(r2.status, r2.values, r2.pause and r2.pause.value)
