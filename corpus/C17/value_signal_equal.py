"""Observation 1 (unchanged library): a production of a VALUE name that equals
the previous value is not seen by a node that waits for that name.

`wait_for` may name a data output ("Must reference an emit or output_name of
another node").  For emit names every production advances the version, but for
a data output the version only advances when the new value differs (`!=`) from
the old one (GraphState.update_value).  A waiter therefore misses a production
whenever the producer returns an equal value -- e.g. a status string "ok", a
boolean flag, a validation result -- and never runs again: the loop below
silently stops after the first pass instead of iterating until count == 3.

    inc(count) -> count          (loop body, target of the gate)
    stat(count) -> status        always returns "ok"  (runs once per new count)
    check(count) wait_for="status"  -> "inc" | END

C17: "every time the name is produced anew and the node's other conditions
hold, the waiting node does run again, so a loop whose gate waits on the
end-of-iteration signal keeps iterating".  `stat` completes once per
iteration, `check`'s input `count` has changed, yet `check` is never started
again.  Exit status 1 when the behaviour is observed.
"""

import sys

from hypergraph import END, Graph, SyncRunner, node, route

log: list[str] = []


@node(output_name="count")
def inc(count: int) -> int:
    log.append(f"inc({count})")
    return count + 1


@node(output_name="status")
def stat(count: int) -> str:
    log.append(f"stat({count})")
    return "ok"


@route(targets=["inc", END], wait_for="status", default_open=False)
def check(count: int) -> str:
    log.append(f"check({count})")
    return END if count >= 3 else "inc"


result = SyncRunner().run(Graph([inc, stat, check]), {"count": 0})
print("execution order:", log)
print("result:", dict(result.values), result.status)

stat_runs = sum(1 for e in log if e.startswith("stat"))
check_runs = sum(1 for e in log if e.startswith("check"))
if result["count"] != 3:
    print(
        f"OBSERVED: 'status' was produced {stat_runs} times, but the gate waiting for it ran {check_runs} time(s); "
        f"the loop stalled at count={result['count']} (expected 3) and the run still reports COMPLETED"
    )
    sys.exit(1)
print("not observed: loop iterated to count == 3")
