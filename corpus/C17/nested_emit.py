from hypergraph import Graph, node, SyncRunner
@node(output_name="r", emit="done")
def f(x): return x + 1
@node(output_name="after", wait_for="done")
def g(x): return "after"
inner = Graph([f], name="inner")
for gn in (inner.as_node(), inner.as_node().map_over("x")):
    G = Graph([gn, g])
    res = SyncRunner().run(G, {"x": [1, 2]} if gn.map_config else {"x": 1})
    print(G.outputs, res.status, res.values)
