from hypergraph import Graph, node, SyncRunner
from hypergraph.events.processor import EventProcessor
class P(EventProcessor):
    def __init__(s): s.ev=[]; s.sd=0
    def on_event(s,e): s.ev.append(type(e).__name__)
    def shutdown(s): s.sd+=1
@node(output_name="r")
def f(q): return q
p=P(); print(SyncRunner().map(Graph([f]), {"q": []}, map_over="q", event_processors=[p]), p.ev, p.sd)   # [] [] 0
