# Known finding F-k (C20): a value renamed at a nested graph's boundary is routed by name when the container is expanded.
from hypergraph import Graph, node
from hypergraph.viz.renderer import render_graph

@node(output_name="a")
def mk(x): return x
@node(output_name="r")
def c1(b): return b
@node(output_name="s")
def c0(k): return k

inner = Graph([c0, c1], name="inner").as_node().with_inputs(b="a")
g = Graph([mk, inner])
meta = render_graph(g.to_flat_graph())["meta"]
for key in ("inner:1|sep:0", "inner:1|sep:1"):
    print(key, [(e["source"], e["target"]) for e in meta["edgesByState"][key] if e["data"]["edgeType"] == "data"])
# inner:1|sep:0 [('mk', 'inner/c0')]          <- the dependency is mk -> inner/c1 (c0 does not take the value)
print(str(g.to_mermaid(depth=1)).count("mk --> inner__c1"))   # 0
