# Known finding F-p (C20): Mermaid writes the hierarchical id w1/b as w1__b; a top-level node NAMED w1__b gets the same id.
from hypergraph import Graph, node

@node(output_name="y")
def b(x): return x
@node(output_name="z")
def w1__b(y): return y
G = Graph([Graph([b], name="w1").as_node(), w1__b])
src = str(G.to_mermaid(depth=1))
print(src)
print("declarations of id w1__b:", sum(1 for ln in src.splitlines() if ln.strip().startswith("w1__b[")))   # 2
