# Known finding F-o (C20): of several producers of one output name inside an EXPANDED nested graph only one is drawn feeding
# the consumer outside.
from hypergraph import Graph, node, ifelse
from hypergraph.viz.renderer import render_graph

@ifelse(when_true="b0", when_false="b1")
def g0(c0): return c0 < 1
@node(output_name="w")
def b0(x1): return x1
@node(output_name="w")
def b1(x1): return -x1
@node(output_name="z")
def use(w): return w
G = Graph([Graph([g0, b0, b1], name="w1").as_node(), use])
r = render_graph(G.to_flat_graph())
for key, es in r["meta"]["edgesByState"].items():
    if "w1:1" in key and "sep:0" in key:
        print(key, sorted((e["source"], e["target"]) for e in es))   # ('w1/b0', 'use') is drawn, ('w1/b1', 'use') is not
print(G.to_mermaid(depth=1))
