import asyncio
from hypergraph import Graph, node, interrupt, AsyncRunner
class Boom(Exception): pass
E = Boom("handler failed")
@interrupt(output_name="answer")
def ask(q):
    raise E
@node(output_name="q")
def mk(x): return x
g = Graph([mk, ask])
r = asyncio.run(AsyncRunner().run(g, {"x": 1}, error_handling="continue"))
print(r.status, type(r.error), r.error is E, r.error.__cause__ is E)
