import sys, asyncio
sys.path.insert(0, "/repo/src")
from hypergraph import Graph, node, SyncRunner, AsyncRunner
err = StopIteration("done")
@node(output_name="a")
def fa(x): raise err
g = Graph([fa])
r = SyncRunner().run(g, {"x": 1}, error_handling="continue")
print("sync:", r.status, type(r.error).__name__, r.error is err)
r = asyncio.run(AsyncRunner().run(g, {"x": 1}, error_handling="continue"))
print("async:", r.status, type(r.error).__name__, r.error is err, repr(r.error)[:80], r.error.__cause__ is err)
