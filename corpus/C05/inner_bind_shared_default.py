"""Observation 1 (unchanged library): binding a defaulted parameter inside a nested
graph makes the enclosing graph un-constructible when a node outside the nested
graph shares that parameter (with the very same default).

``tokenize(text, lang="en")`` and ``label(tokens, lang="en")`` share the
configuration parameter ``lang`` with a consistent signature default.

  flat   = Graph([tokenize, label]).bind(lang="de")                     -> fine
  nested = Graph([Graph([tokenize], name="tok").bind(lang="de").as_node(), label])
           -> GraphConfigError: Inconsistent defaults for 'lang'
              (Nodes with default: label / Nodes without default: tok)

Cause: GraphNode.has_signature_default_for() answers False for a parameter that
is bound on the inner graph, so _validate_consistent_defaults() sees one
consumer "with" and one "without" a default, although the wrapped node has
exactly the same signature default as its sibling.  Without the binding (or
with the binding applied to the flat graph) the composition is accepted, so
wrapping a dependency-closed group + binding on the inner graph changes the
behaviour compared with the flat graph (C05).

The same happens with two sibling nested graphs sharing the parameter when only
one of them binds it.

Exit status 1 when the discrepancy is present, 0 otherwise.
"""

import sys

from hypergraph import Graph, SyncRunner, node


@node(output_name="tokens")
def tokenize(text, lang="en"):
    return [f"{lang}:{w}" for w in text.split()]


@node(output_name="label")
def label(tokens, lang="en"):
    return f"{len(tokens)} tokens [{lang}]"


flat = Graph([tokenize, label]).bind(lang="de")
flat_values = dict(SyncRunner().run(flat, {"text": "ein graph"}).values)
print("flat   :", sorted(flat.inputs.required), sorted(flat.inputs.optional), flat_values)

# sanity: the same nesting WITHOUT the inner binding is accepted
unbound = Graph([Graph([tokenize], name="tok").as_node(), label])
print("nested (no binding):", sorted(unbound.inputs.required), sorted(unbound.inputs.optional))

try:
    tok = Graph([tokenize], name="tok").bind(lang="de")
    nested = Graph([tok.as_node(), label])
except Exception as exc:  # noqa: BLE001
    print("nested : construction FAILED ->", type(exc).__name__, str(exc).splitlines()[0])
    print("C05 discrepancy: the flat graph with the same binding is valid and returns", flat_values)
    sys.exit(1)

nested_values = dict(SyncRunner().run(nested, {"text": "ein graph"}).values)
print("nested :", sorted(nested.inputs.required), sorted(nested.inputs.optional), nested_values)
same = (
    set(nested.inputs.required) == set(flat.inputs.required)
    and set(nested.inputs.optional) == set(flat.inputs.optional)
    and nested_values == flat_values
)
sys.exit(0 if same else 1)
