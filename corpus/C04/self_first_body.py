"""Observation 1 (unchanged library): extra iterations on the FIRST pass of a loop whose
gate is synchronised (wait_for) on a signal emitted by the last body node, as soon as the
body is longer than two nodes.

    step(count) -> count            first body node, the gate's target (self-accumulating)
    stage_1 .. stage_k              pure pass-through stages
    publish(...) emit "turn_done"   last body node
    again(count, limit) wait_for "turn_done":  "step" while count < limit else END

Equivalent sequential loop:  do { count += 1; ... } while (count < limit)
so count must end at max(limit, 1) and `step` must run max(limit, 1) times.

What happens: until the gate has executed for the first time its targets are "default
open"; `step` is gate-controlled, so its own output makes it stale again, and it re-fires
in every superstep while the rest of the body is still catching up. With k intermediate
stages `step` runs k+1 times before the gate gets its first say. For small limits the
final count overshoots (and the body ran more often than any gate decision dictated).
"""

import sys

from hypergraph import END, Graph, SyncRunner, node, route

calls = []


@node(output_name="count")
def step(count: int) -> int:
    calls.append(count)
    return count + 1


@route(targets=["step", END], wait_for="turn_done")
def again(count: int, limit: int) -> str:
    return "step" if count < limit else END


def make_body(k: int):
    """step -> s1 -> ... -> sk -> publish(emit turn_done)."""
    nodes = [step]
    prev = "count"
    for i in range(1, k + 1):

        def stage(x: int) -> int:
            return x

        nodes.append(node(stage, output_name=f"s{i}", rename_inputs={"x": prev}).with_name(f"stage_{i}"))
        prev = f"s{i}"

    def publish(x: int) -> int:
        return x

    nodes.append(node(publish, output_name="published", rename_inputs={"x": prev}, emit="turn_done"))
    return Graph(nodes + [again])


bad = 0
for k in (0, 1, 2, 3):
    graph = make_body(k)
    for limit in (0, 1, 2, 3, 5):
        calls.clear()
        res = SyncRunner().run(graph, {"count": 0, "limit": limit})
        want = max(limit, 1)
        ok = res["count"] == want and len(calls) == want
        bad += not ok
        print(f"stages={k} limit={limit}: count={res['count']} step-executions={len(calls)}  expected {want}  {'ok' if ok else 'VIOLATION'}")

sys.exit(1 if bad else 0)
