from hypergraph import Graph, node, SyncRunner
@node(output_name="pv", emit="sig")
def p(x): return x
@node(output_name="v", wait_for="sig")
def q(x): return x + 100
@node(output_name="out", wait_for="sig")
def r(v=9): return ("r", v)
g = Graph([p, q, r])
print(g.inputs)
print(SyncRunner().run(g, {"x": 1}).values)
