from hypergraph import Graph, SyncRunner
from hypergraph.nodes import FunctionNode
def A(): return True
def C(x=1): return x
def D(y): return repr(y)
g = Graph([FunctionNode(A, name="A", output_name="x"), FunctionNode(C, name="C", output_name="y"), FunctionNode(D, name="D", output_name="z")])
print(SyncRunner().run(g, {}).values)   # {'x': True, 'y': True, 'z': '1'} -- dependency order gives z = 'True'
