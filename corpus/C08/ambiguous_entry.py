from hypergraph import Graph, node, SyncRunner
@node(output_name="w1")
def c1(w0): return 1
@node(output_name="w0")
def c0(w2, w1): return 0
@node(output_name="w2")
def c2(w1): return 2
g = Graph([c1, c0, c2])
print(g.inputs.entrypoints)
print(SyncRunner().run(g, {"w2": 1, "w1": 0}))   # ValueError: Ambiguous cycle entry
