from hypergraph import Graph, node, SyncRunner
@node(output_name="b")
def A(a): return a + 1
@node(output_name="c")
def B(b): return b * 2
g = Graph([A, B]).bind(b=5)
print(g.inputs)
for inp in ({}, {"a": 1}):
    try:
        r = SyncRunner().run(g, inp); print(inp, r.status, r.values)
    except Exception as e: print(inp, type(e).__name__, str(e)[:150])
