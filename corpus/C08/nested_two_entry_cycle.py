"""Observation 2 (unchanged library): a cyclic graph with two entry points cannot be
run once it is nested.

inner = Graph([A(x)->y, B(y)->x, gate]) reports entrypoints {'A': ('x',), 'B': ('y',)}.
Nested, ``outer = Graph([inner.as_node()])`` reports ONE entry point
{'inner': ('x', 'y')}.  Supplying the parameters of that listed entry point is
rejected (the inner run finds both of its entry points satisfied -> ValueError
"Ambiguous cycle entry"), and supplying only x or only y is rejected by the outer
validation (MissingInputError).  No set of inputs is accepted.  Exits 1 when so.
"""
import sys
import warnings

from hypergraph import END, Graph, SyncRunner, node, route

warnings.simplefilter("ignore")


@node(output_name="y")
def A(x):
    return x + 1


@node(output_name="x")
def B(y):
    return y + 1


@route(targets=["A", END])
def gate(x):
    return END if x > 5 else "A"


inner = Graph([A, B, gate], name="inner")
outer = Graph([inner.as_node()])
print("inner spec:", inner.inputs)
print("outer spec:", outer.inputs)
accepted = []
for values in ({"x": 1, "y": 1}, {"x": 1}, {"y": 1}):
    try:
        res = SyncRunner().run(outer, values)
        accepted.append(values)
        print(values, "->", dict(res.values))
    except Exception as e:  # noqa: BLE001
        print(values, "->", type(e).__name__, str(e).splitlines()[0])
listed = {p for params in outer.inputs.entrypoints.values() for p in params}
sys.exit(0 if {k: 1 for k in listed} in accepted else 1)
