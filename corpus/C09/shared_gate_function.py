import sys
sys.path.insert(0, "/repo/src")  # two cached gates of one routing function: the second restored the decision of the first (fixed: 97deb67)
from hypergraph import Graph, node, ifelse, route, END, SyncRunner
from hypergraph.cache import InMemoryCache
from hypergraph.nodes.gate import IfElseNode, RouteNode

def is_big(x):
    return x > 3

@node(output_name="a")
def fa(x): return ("a", x)
@node(output_name="b")
def fb(x): return ("b", x)
@node(output_name="c")
def fc(x): return ("c", x)
@node(output_name="d")
def fd(x): return ("d", x)

g1 = IfElseNode(is_big, when_true="fa", when_false="fb", name="g1", cache=True)
g2 = IfElseNode(is_big, when_true="fc", when_false="fd", name="g2", cache=True)
G = Graph([g1, g2, fa, fb, fc, fd])
for cache in (None, InMemoryCache()):
    r = SyncRunner(cache=cache).run(G, {"x": 5})
    print("cache" if cache else "nocache", r.status, sorted(r.values))
