from hypergraph import Graph, node, SyncRunner
from hypergraph.cache import InMemoryCache
calls = []
@node(output_name="a")
def mk(x): return ["payload", x]
@node(output_name="b", cache=True)
def wrap(a): return [a]
@node(output_name="c", cache=True)
def use(a, b):
    calls.append("use"); return len(a) + len(b)
g = Graph([mk, wrap, use]); cache = InMemoryCache(); r = SyncRunner(cache=cache)
for i in range(3):
    print(r.run(g, {"x": 1})["c"], calls)
# use is invoked in run 1 AND in run 2: same definition, equal arguments, entry retained
