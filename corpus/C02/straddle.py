import asyncio
from hypergraph import Graph, node, ifelse, SyncRunner, AsyncRunner
@node(output_name="c")
def mkc(x): return x > 0
@ifelse(when_true="X", when_false="Y")
def gate(c): return c
@node(output_name="o")
def X(x): return ("X", x)
@node(output_name="bad")
def Fail(x): raise RuntimeError("boom")
@node(output_name="o")
def Y(x): return ("Y", x)
g = Graph([mkc, gate, X, Fail, Y])
rs = SyncRunner().run(g, {"x": 1}, error_handling="continue")
ra = asyncio.run(AsyncRunner().run(g, {"x": 1}, error_handling="continue"))
print("sync ", rs.status, rs.values)
print("async", ra.status, ra.values)
